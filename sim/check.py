"""Entry point: `python -m sim.check <Cxx> --tier quick|thorough` (cwd = /verif).

exit 0  property held on everything explored (known findings are printed as KNOWN-FINDING lines)
exit 1  at least one violation not listed in known_findings.json; each printed as
        `VIOLATION property=<id> replay=<path>`
exit 2  harness error (worker died, time-out, nondeterministic replay, self-test mismatch)
"""
import argparse
import json
import os
import subprocess
import sys
import time

from sim.core import env


def _parse(argv):
    p = argparse.ArgumentParser(prog="sim.check")
    p.add_argument("property")
    p.add_argument("--tier", default=os.environ.get("VERIF_TIER", "quick"), choices=["quick", "thorough"])
    p.add_argument("--replay", default=None)
    p.add_argument("--digests", default=None, help="comma separated run indices: print their digests as JSON")
    p.add_argument("--runs", type=int, default=None)
    p.add_argument("--budget", type=float, default=None)
    p.add_argument("--dump-digests", default=None, help="write {run index: trace digest} of the whole batch to this file")
    p.add_argument("--no-selftest", action="store_true")
    p.add_argument("--no-evidence", action="store_true")
    p.add_argument("--show", type=int, default=None, help="print scenario and trace of run index")
    return p.parse_args(argv)


def _seed():
    try:
        return int(os.environ.get("VERIF_SEED", "0"))
    except ValueError:
        return 0


def do_replay(engine, path):
    from sim.core import runner

    with open(path) as f:
        rp = json.load(f)
    if rp.get("property") != engine.PROPERTY:
        print("HARNESS_ERROR replay file is for %s" % rp.get("property"))
        return 2
    for h in rp.get("history") or []:
        # what the process had done before (code under test that keeps module- or class-level state); not judged
        try:
            runner.execute_scenario(engine, h)
        except Exception:
            pass
    res = runner.execute_scenario(engine, rp["scenario"], keep_trace=True)
    print("REPLAY verdict=%s class=%s digest=%s" % (res.verdict, res.vclass, res.digest))
    if res.detail:
        print("DETAIL " + res.detail.replace("\n", " | ")[:2000])
    if res.verdict == "VIOLATION":
        from sim.core import findings

        known = findings.match(engine.PROPERTY, res.facts)
        if known is not None:
            print("KNOWN-FINDING: property=%s %s" % (engine.PROPERTY, known.get("what", known.get("id"))))
            return 0
        print("VIOLATION property=%s replay=%s" % (engine.PROPERTY, os.path.abspath(path)))
        return 1
    return 0


def do_digests(engine, tier, idxs):
    from sim.core import runner

    out = {}
    for k in idxs:
        _, res = runner.run_one(engine, _seed(), k, tier)
        out[str(k)] = res.digest
    print("DIGESTS " + json.dumps(out, sort_keys=True))
    return 0


def selftest_determinism(prop, tier, digests, nsample):
    """Re-run a sample of indices in a fresh interpreter under another PYTHONHASHSEED, serially."""
    ks = sorted(digests)
    if not ks:
        return {"seeds": 0, "mismatches": 0}
    step = max(1, len(ks) // nsample)
    sample = ks[::step][:nsample]
    envv = dict(os.environ)
    envv["VERIF_PINNED"] = "1"
    envv["PYTHONHASHSEED"] = "4242"
    envv["OMP_NUM_THREADS"] = "1"
    mism = 0
    got = {}
    # split across a few processes to bound wall time
    nproc = min(8, max(1, len(sample) // 4))
    parts = [sample[i::nproc] for i in range(nproc)]
    procs = []
    for part in parts:
        if not part:
            continue
        cmd = [sys.executable, "-m", "sim.check", prop, "--tier", tier, "--digests", ",".join(map(str, part))]
        procs.append(subprocess.Popen(cmd, env=envv, stdout=subprocess.PIPE, stderr=subprocess.DEVNULL,
                                      cwd=env.VERIF_DIR, text=True))
    for p in procs:
        try:
            out, _ = p.communicate(timeout=900)
        except subprocess.TimeoutExpired:
            p.kill()
            return {"seeds": len(sample), "mismatches": -1, "error": "timeout"}
        for line in out.splitlines():
            if line.startswith("DIGESTS "):
                got.update(json.loads(line[8:]))
    bad = []
    for k in sample:
        if got.get(str(k)) != digests[k]:
            mism += 1
            bad.append(k)
    r = {"seeds": len(sample), "mismatches": mism, "other_hashseed": 4242}
    if bad:
        r["bad_indices"] = bad[:10]
    return r


def _find_history(engine, viols, vclass, seed, tier, depth=48):
    """(violation, minimal list of preceding scenarios) such that the violation's scenario reproduces its class when
    executed after them in one fresh process; None if there is none among the `depth` preceding runs."""
    from sim.core import runner, shrink

    for v in viols:
        k = v["k"]
        try:
            hist = [runner.scenario_of(engine, seed, j, tier) for j in range(max(0, k - depth), k)]
        except Exception:
            continue
        if not hist:
            continue

        def test(h, v=v):
            try:
                r = runner.execute_isolated(engine, v["scenario"], h)
            except Exception:
                return False
            return r.verdict == "VIOLATION" and r.vclass == vclass

        if not test(hist):
            continue
        small = shrink.ddmin_list(hist, test, shrink.Budget(120))
        return v, small
    return None


def minimise_and_write(engine, viol, known_entries, budget_n, history=None):
    from sim.core import findings, runner, shrink
    from sim.core.trace import canon, run_seed

    scn = viol["scenario"]
    vclass = viol["vclass"]
    history = list(history or [])

    def test(cand):
        try:
            r = runner.execute_isolated(engine, cand, history)
        except Exception:
            return False
        if r.verdict != "VIOLATION" or r.vclass != vclass:
            return False
        return findings.match(engine.PROPERTY, r.facts, known_entries) is None

    orig_size = len(canon(scn))
    small = scn
    if hasattr(engine, "minimise"):
        try:
            small = engine.minimise(scn, test, shrink.Budget(budget_n))
        except Exception as e:  # minimisation must never lose the violation
            print("WARN minimise failed: %r" % (e,), file=sys.stderr)
            small = scn
        if not test(small):
            small = scn
    res = runner.execute_isolated(engine, small, history)
    if res.verdict != "VIOLATION":
        # seen in a worker, but not when the scenario is executed on its own: state leaked from an earlier run of
        # that worker into this one (the code under test keeps module-level state?) - not a replayable violation
        raise RuntimeError("violation of class %s (run %d) does not reproduce when its scenario is executed in isolation"
                           % (vclass, viol["k"]))
    rs = run_seed(engine.PROPERTY, _seed(), viol["k"])
    d = os.path.join(env.VERIF_DIR, "replays", engine.PROPERTY)
    os.makedirs(d, exist_ok=True)
    path = os.path.join(d, "%s-%d.json" % (vclass, rs))
    with open(path, "w") as f:
        json.dump({
            "property": engine.PROPERTY, "format": 1, "verif_seed": _seed(), "run_index": viol["k"],
            "generator_seed": rs, "expected_class": res.vclass, "expected_digest": res.digest,
            "detail": res.detail, "facts": res.facts,
            "original_size": orig_size, "minimised_size": len(canon(small)), "scenario": small,
            "history": history,
        }, f, indent=1, sort_keys=True, default=str)
    # verify in a fresh interpreter
    envv = dict(os.environ)
    envv.pop("VERIF_PINNED", None)
    p = subprocess.run([sys.executable, "-m", "sim.check", engine.PROPERTY, "--replay", path],
                       env=envv, cwd=env.VERIF_DIR, stdout=subprocess.PIPE, stderr=subprocess.DEVNULL,
                       text=True, timeout=900)
    ok = False
    for line in p.stdout.splitlines():
        if line.startswith("REPLAY "):
            ok = "verdict=VIOLATION " in line and ("class=%s " % res.vclass) in line + " "
            if ok and ("digest=%s" % res.digest) not in line:
                # the violation reproduces in a fresh interpreter, its event trace does not: the code under test does
                # not behave deterministically (typically it reads memory it never initialised). Still a violation of
                # the property, and the replay file still shows it; the file says that its digest is not stable.
                with open(path) as f:
                    rp = json.load(f)
                rp["digest_stable"] = False
                rp["expected_digest"] = None
                with open(path, "w") as f:
                    json.dump(rp, f, indent=1, sort_keys=True, default=str)
                print("NOTE replay of %s reproduces the violation class but not the trace digest: the code under test is "
                      "not deterministic here (uninitialised memory?)" % path)
    return path, ok, res


def main(argv=None):
    argv = sys.argv[1:] if argv is None else argv
    env.pin_and_reexec("sim.check", argv)
    args = _parse(argv)
    prop = args.property
    from sim.core import evidence, findings, runner

    if prop not in runner.ENGINES:
        print("HARNESS_ERROR unknown or unclaimed property %s" % prop)
        return 2
    engine = runner.load_engine(prop)
    if args.replay:
        return do_replay(engine, args.replay)
    if args.digests:
        return do_digests(engine, args.tier, [int(x) for x in args.digests.split(",") if x])
    if args.show is not None:
        scn, res = runner.run_one(engine, _seed(), args.show, args.tier, keep_trace=True)
        print(json.dumps(scn, indent=1, default=str))
        print(json.dumps(res.to_dict(), indent=1, default=str))
        if res.trace is not None:
            for e in res.trace.events[-200:]:
                print(e)
        return 0

    tiercfg = dict(engine.TIERS[args.tier])
    nruns = args.runs if args.runs is not None else tiercfg["runs"]
    budget = args.budget if args.budget is not None else float(os.environ.get("VERIF_BUDGET_S", tiercfg["budget"]))
    seed = _seed()
    print("CHECK property=%s tier=%s VERIF_SEED=%d runs<=%d budget=%.0fs repo=%s" % (
        prop, args.tier, seed, nruns, budget, env.repo_root()))
    sys.stdout.flush()
    t0 = time.monotonic()
    harness_errors = []
    try:
        rep = runner.run_batch(prop, seed, args.tier, nruns, budget,
                               chunk=tiercfg.get("chunk"), per_task_timeout=tiercfg.get("task_timeout", 600))
    except Exception as e:
        print("HARNESS_ERROR batch failed: %r" % (e,))
        return 2
    for k, tb in rep.errors[:5]:
        harness_errors.append("run %d raised in harness: %s" % (k, tb.strip().splitlines()[-1]))
        print("HARNESS_ERROR run=%d\n%s" % (k, tb), file=sys.stderr)

    if args.dump_digests:
        with open(args.dump_digests, "w") as f:
            json.dump({str(k): v for k, v in sorted(rep.digests.items())}, f)

    known_entries = findings.load()
    new, known_hits = [], {}
    for v in rep.violations:
        e = findings.match(prop, v["facts"], known_entries)
        if e is None:
            new.append(v)
        else:
            known_hits[e["id"]] = known_hits.get(e["id"], 0) + 1
    for e in known_entries:
        if e.get("property") == prop and e.get("status") == "finding":
            print("KNOWN-FINDING: property=%s %s (id=%s, hit %d times in this run)" % (
                prop, e.get("what", ""), e["id"], known_hits.get(e["id"], 0)))

    reported = []
    classes = {}
    for v in new:
        classes.setdefault(v["vclass"], []).append(v)
    for vclass in sorted(classes)[:3]:
        path = ok = res = None
        last_err = None
        cands = classes[vclass][:1]
        history = None
        # a violation may exist only through state that an earlier run of the same worker left behind in the code under
        # test (module- or class-level caches): look for an instance of the class that reproduces when its scenario is
        # executed on its own ...
        found = False
        for v in classes[vclass][:40]:
            try:
                r0 = runner.execute_isolated(engine, v["scenario"])
            except Exception:
                continue
            if r0.verdict == "VIOLATION" and r0.vclass == vclass:
                cands = [v]
                found = True
                break
        if not found and getattr(engine, "HISTORY_REPLAY", True):
            # ... and otherwise for one that reproduces after the scenarios that preceded it in the batch, executed in
            # the same fresh process; the history is then minimised and becomes part of the replay file
            history = _find_history(engine, classes[vclass][:6], vclass, seed, args.tier)
            if history is not None:
                cands, history = [history[0]], history[1]
        for v in cands:
            try:
                path, ok, res = minimise_and_write(engine, v, known_entries, tiercfg.get("shrink_budget", 300), history)
                last_err = None
                break
            except Exception as e:
                last_err = e
        if last_err is not None:
            harness_errors.append("minimise/replay failed for %s: %r" % (vclass, last_err))
            continue
        if not ok:
            harness_errors.append("replay of %s did not reproduce class+digest (harness nondeterminism)" % path)
            print("HARNESS_ERROR replay not reproducible: %s" % path)
            continue
        reported.append({"class": vclass, "replay": path, "count": len(classes[vclass]), "detail": res.detail})
        print("VIOLATION property=%s replay=%s" % (prop, path))
        print("  class=%s count=%d detail=%s" % (vclass, len(classes[vclass]), res.detail.replace("\n", " | ")[:600]))
    for vclass in sorted(classes)[3:]:
        print("  (further class %s: %d violations, not minimised)" % (vclass, len(classes[vclass])))

    st = {"seeds": 0, "mismatches": 0, "skipped": True}
    if not args.no_selftest and rep.n:
        st = selftest_determinism(prop, args.tier, rep.digests, tiercfg.get("selftest", 32))
        if st["mismatches"]:
            harness_errors.append("determinism self-test: %s" % st)
            print("HARNESS_ERROR determinism self-test mismatch: %s" % st)

    if rep.n and not rep.nontrivial:
        # every run was vacuous (e.g. the golden run of C10 never succeeds, or every configuration left the domain):
        # the check explored nothing and must not report success
        harness_errors.append("no run was non-trivial: the check explored nothing (%d runs)" % rep.n)
    zero_probes = [p for p in getattr(engine, "PROBES", []) if not rep.probes.get(p)]
    zero_faults = [p for p in getattr(engine, "FAULT_KINDS", []) if not rep.faults.get(p)]
    if zero_probes:
        print("WARN probes never reached: %s" % ", ".join(zero_probes))
    if zero_faults:
        print("WARN fault kinds never fired: %s" % ", ".join(zero_faults))

    wall = time.monotonic() - t0
    if not args.no_evidence:
        evidence.write(engine, args.tier, seed, rep, wall, st, len(new), known_hits, reported,
                       harness_errors, zero_probes, zero_faults)
    print("SUMMARY property=%s runs=%d nontrivial=%d distinct=%d events=%d violations=%d known=%d wall=%.1fs "
          "runs_per_hour=%d" % (prop, rep.n, rep.nontrivial, len(rep.sigs), rep.events, len(new),
                                sum(known_hits.values()), wall, int(rep.n / max(rep.wall, 1e-9) * 3600)))
    if reported:
        return 1
    if harness_errors or (new and not reported):
        for h in harness_errors:
            print("HARNESS_ERROR " + h)
        return 2
    return 0


if __name__ == "__main__":
    sys.exit(main())
