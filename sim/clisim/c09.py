"""C09 - the command-line tools store exactly what the library pipeline computes.

The batch-job view: a stream of records flows through the real tools (forked child per run,
real pydrobert-kaldi tables for the Kaldi tool) with poison records injected at arbitrary
positions and an environment that differs from run to run (ambient RNG state, configuration
syntax, worker count with a simulated pool). Oracles over the recorded history: conservation
(every non-excluded id stored exactly once under its own id, neighbours of a poison record
unaffected), per-record values against a reference pipeline built from explicitly constructed
library objects, run-to-run determinism under --seed, equality across configuration syntaxes."""
import copy
import io
import json
import os
import shutil
import tempfile
import wave

import numpy as np

from sim.clisim import child, common, refpipe, world
from sim.core import env, shrink
from sim.core.trace import Result, Trace
from sim.streamsim import configs

PROPERTY = "C09"
LEVEL = "exploration"
TIERS = {
    "quick": {"runs": 1500, "budget": 120, "selftest": 24, "shrink_budget": 60, "chunk": 8, "task_timeout": 900},
    "thorough": {"runs": 40000, "budget": 2400, "selftest": 300, "shrink_budget": 150, "chunk": 8, "task_timeout": 1800},
}
RUN_TIMEOUT_S = 300
HISTORY_REPLAY = False  # every tool run is a forked child: nothing can leak from one scenario into the next
RULE = (
    "Each run builds a corpus of 1-8 utterances (npy / pt / wav / keyed npz / keyed hdf5 for the torch tool, wav "
    "scp for the Kaldi tool; mono or channels-first multi-channel; lengths from 0 samples to ~900) and a command line "
    "(configuration swarm or no computer, pre-/post-processors, --channel, --min-duration, --seed), then runs the "
    "tool twice in forked children with a different configuration syntax (inline JSON / JSON file / YAML file), "
    "ambient RNG state and worker count (simulated pool). Poison records (Kaldi tool): shorter than --min-duration, "
    "sampling rate differing from the bank's, channel out of range. Non-trivial = >= 2 utterances stored and a value "
    "comparison with the reference pipeline took place, or a poison record fired. Distinct = distinct (tool, "
    "computer kind or raw, pre names, post names, container set, poison kinds, syntax pair, worker pair, #utts class)."
)
COMPONENTS = {
    "signals_to_torch_feat_dir / compute_feats_from_kaldi_tables (entry functions, config parsing, dataset, loops)": "real",
    "PyTorch* modules, NumPy computers, pre/post-processors, read_signal": "real",
    "pydrobert.kaldi tables (scp wav reader, ark matrix writer/reader), torch.save/load, ruamel.yaml": "real (dependency)",
    "worker pool for --num-workers > 0": "stub (simulated pool, appendix B)",
    "corpus generator, poison records, ambient RNG state": "stub (simulator)",
    "reference pipeline": "model (explicitly constructed library objects, no alias factory / CLI code)",
}
ASSUMPTIONS = [
    "the torch tool documents that a channel mismatch raises; poison records are therefore injected for the Kaldi "
    "tool only (where they are skipped by design); the torch tool gets too-short and zero-length utterances",
    "dither is excluded from the value oracle (its draw protocol is an implementation detail) and checked for "
    "run-to-run determinism under a fixed --seed instead; the ORDER of a chain containing dither is checked by the "
    "order probe, which only assumes that the same --seed adds the same noise to an utterance of the same length",
    "post-processors are only combined with utterances long enough to yield >= 3 frames (1-2 frames for deltas and for "
    "Standardize with global statistics); the default (per-utterance) Standardize output is compared only where every "
    "reference coefficient has variance >= 1e-3; Standardize with global statistics reads a 2 x (F+1) float64 .npy file "
    "written by the harness (sums | count ; sums of squares | 0) and is compared with (x - mean) / std written out",
    "float32 precision: |a-b| <= 1e-4 max(|a|,|b|) + 1e-5 max|ref| for linear features; log features are compared as "
    "exp() with |a-b| <= 1e-4 max + 2e-7 x (largest sample near the frame) [squared for power spectra]: the PyTorch "
    "port's single-precision window and filters give an absolute error proportional to the frame's amplitude (zero for "
    "digital silence); 2e-7 is about 3 x float32 epsilon, the largest error measured was 9e-8 x amplitude; log features that went through linear post-"
    "processors get the corresponding per-frame log-domain slack",
    "Kaldi tables are opened unsorted (scp:), ids are [A-Za-z0-9_.-]+; ark:- pipes are not exercised",
    "this is the weakest fit of the claimed properties: most of C09 is a functional equivalence; the simulator "
    "contributes the poison-record / environment dimension and the conservation oracle",
]
PROBES = [
    "torch_tool", "kaldi_tool", "raw_no_computer", "preemphasis", "dither_determinism", "postprocess", "standardize_global_stats", "standardize_global_one_frame",
    "multichannel_select", "too_short_utterance", "zero_length_utterance", "yaml_config", "json_file_config",
    "workers_sim", "si_computer", "include_energy_empty", "kaldi_default_channel0", "order_probe",
    "utterance_longer_than_2_20", "same_process_config_rewritten", "silent_stretch", "id_starting_with_hash",
    "fresh_interpreter_other_hashseed", "nan_sample",
]
FAULT_KINDS = ["poison_min_duration", "poison_rate_mismatch", "poison_channel_range"]


def _min_len_for_frames(cfg, nframes=3):
    comp = configs.build(cfg)
    return int(comp.frame_length + (nframes + 1) * comp.frame_shift + 2)


def generate(rng, tier, k):
    if rng.random() < 0.06:
        # order probe: with a fixed --seed the dither noise of an utterance can be recovered from a dither-only run
        # (stored raw, no computer); the full chain must then equal the documented order applied to signal and noise
        nutt = rng.choice((1, 2, 3))
        corpus = world.gen_corpus(rng, nutt, allow_multi=False, containers=("npy", "pt", "npz"), short_ok=False)
        for u in corpus:
            u["store_dtype"] = "float64"
        coeff = rng.choice((0.97, 0.5))
        dith = {"name": "dither", "coeff": rng.choice((1.0, 3.0))}
        pre = [dith, {"name": "preemphasize", "coeff": coeff}]
        if rng.random() < 0.5:
            pre.reverse()
        return {"tool": "torch", "order_probe": True, "corpus": corpus, "cfg": None, "pre": pre, "post": [],
                "args": {"seed": rng.randrange(0, 1000)},
                "runs": [{"syntax": rng.choice(("inline", "json", "yaml")), "ambient": rng.randrange(1 << 20),
                          "num_workers": rng.choice((0, 0, 2)), "schedule": [rng.randrange(8) for _ in range(6)]}
                         for _ in range(2)]}
    tool = "torch" if rng.random() < 0.6 else "kaldi"
    if rng.random() < 0.012:
        # a recording longer than 2**20 samples next to a short one (block-wise processing must not show)
        from sim.clisim.c10 import _cfg_small

        cfg = _cfg_small("stft")
        cfg["bank"]["rate"] = 16000
        cfg["bank"]["high_hz"] = 7600.0
        cfg["frame_length"], cfg["frame_shift"] = 400, 160
        corpus = [{"id": "long", "container": "npy" if tool == "torch" else "wav", "n": (1 << 20) + rng.randrange(1, 6000),
                   "seed": rng.randrange(1 << 30), "channels": 1, "store_dtype": "int16", "rate": 16000},
                  {"id": "short", "container": "npy" if tool == "torch" else "wav", "n": rng.randrange(800, 3000),
                   "seed": rng.randrange(1 << 30), "channels": 1, "store_dtype": "int16", "rate": 16000}]
        if rng.random() < 0.5:
            corpus.reverse()
        return {"tool": tool, "corpus": corpus, "cfg": cfg, "pre": [{"name": "preemphasize", "coeff": 0.97}], "post": [],
                "args": {"seed": None}, "long": True,
                "runs": [{"syntax": "inline", "ambient": rng.randrange(1 << 20), "num_workers": 0, "schedule": []}]}
    nutt = rng.choice((1, 2, 3, 3, 4, 5, 6, 8))
    r = rng.random()
    if r < 0.12 and tool == "torch":
        cfg = None
    else:
        cfg, comp, _ = configs.gen_config(rng, "stft" if rng.random() < 0.7 else "si")
        if comp.frame_length > 400 or not common.torch_portable(cfg, comp):
            from sim.clisim.c10 import _cfg_small

            cfg = _cfg_small("stft")
    pre, post = [], []
    if rng.random() < 0.35:
        pre.append({"name": "preemphasize", "coeff": rng.choice((0.97, 0.5))})
    seed = rng.choice((None, rng.randrange(0, 1000), rng.randrange(0, 1000)))
    if seed is not None and rng.random() < 0.35:
        pre.insert(rng.randrange(0, len(pre) + 1), {"name": "dither", "coeff": rng.choice((1.0, 3.0))})
    if cfg is not None and rng.random() < 0.4:
        post.append(rng.choice(({"name": "deltas", "num_deltas": rng.choice((1, 2))},
                                {"name": "stack", "num_vectors": rng.choice((2, 3))},
                                {"name": "standardize"},
                                # global statistics from a file (written by the harness), with and without variance
                                # normalisation: defined for any number of frames, one included
                                {"name": "standardize", "global": {"seed": rng.randrange(1 << 30), "count": rng.choice((1, 7, 1000))},
                                 "norm_var": rng.random() < 0.6})))
        if rng.random() < 0.3:
            post.append({"name": "deltas", "num_deltas": 1})
    if tool == "torch":
        corpus = world.gen_corpus(rng, nutt, allow_multi=rng.random() < 0.4, short_ok=not post, hash_ids=True,
                                  nan_ok=not post and not pre)
    else:
        corpus = world.gen_corpus(rng, nutt, allow_multi=rng.random() < 0.4, containers=("wav",), short_ok=not post)
        for u in corpus:
            u["n"] = max(u["n"], 1)  # Kaldi's own wave reader rejects a data chunk of zero samples
        multi = rng.random() < 0.4
        for u in corpus:
            u["channels"] = rng.choice((2, 3)) if multi else 1
            u["rate"] = cfg["bank"]["rate"]
    if post:
        need = _min_len_for_frames(cfg)
        one = _min_len_for_frames(cfg, 0)
        only_linear = all(p["name"] in ("deltas",) or "global" in p for p in post)
        for u in corpus:
            if only_linear and rng.random() < 0.25:
                # exactly one or two frames: enough for deltas (edge padding), a boundary for "is there anything to process"
                comp_ = configs.build(cfg)
                u["n"] = int(comp_.frame_length // 2 + 1 + rng.choice((0, 1, comp_.frame_shift // 2, comp_.frame_shift)))
            else:
                u["n"] = max(u["n"], need + rng.randrange(0, 200))
    multi = any(u["channels"] > 1 for u in corpus)
    args = {"seed": seed}
    if multi:
        if tool == "torch":
            args["channel"] = rng.randrange(0, 2)
        else:
            args["channel"] = rng.choice((-1, 0, 1, 1))
    elif tool == "kaldi" and rng.random() < 0.2:
        args["channel"] = 0
    poison = []
    if tool == "kaldi":
        for u in corpus:
            q = rng.random()
            if q < 0.1:
                u["rate"] = cfg["bank"]["rate"] * 2 if cfg["bank"]["rate"] != 11025 else 8000
                poison.append("rate")
            elif q < 0.2 and multi and args.get("channel", -1) >= 0:
                u["channels"] = 1 if args["channel"] >= 1 else u["channels"]
                if u["channels"] <= args["channel"]:
                    poison.append("channel")
        if rng.random() < 0.3:
            rate = cfg["bank"]["rate"]
            lens = sorted(u["n"] for u in corpus)
            cut = lens[len(lens) // 2]
            args["min_duration"] = (cut + 0.5) / rate
    runs = []
    syntaxes = ["inline", "json", "yaml"]
    rng.shuffle(syntaxes)
    for i in range(2):
        runs.append({"syntax": syntaxes[i], "ambient": rng.randrange(1 << 20),
                     "num_workers": rng.choice((0, 0, 1, 2, 3)) if tool == "torch" else 0,
                     "schedule": [rng.randrange(8) for _ in range(3 * nutt)]})
    scn = {"tool": tool, "corpus": corpus, "cfg": cfg, "pre": pre, "post": post, "args": args, "runs": runs}
    if rng.random() < 0.015 and seed is not None:
        # both runs in fresh interpreters with different string-hash salts (separate invocations of the command)
        for i, r in enumerate(runs):
            r["cold"] = True
            r["hashseed"] = rng.randrange(1, 4000) + 4000 * i
            r["num_workers"] = 0
    if cfg is not None and rng.random() < 0.12:
        # the tool has already been run in this process with the SAME configuration file names holding another
        # configuration (a long-lived driver script that rewrites its config files between calls)
        from sim.clisim.c10 import _cfg_small

        other = _cfg_small("stft")
        other["bank"]["rate"] = cfg["bank"]["rate"]
        other["bank"]["high_hz"] = float(min(3800, cfg["bank"]["rate"] // 2 - 100))
        other["include_energy"] = not cfg.get("include_energy", False)
        scn["warm_cfg"] = other
    return scn


# ------------------------------------------------------------------------------------------- execution

def _write_kaldi_corpus(corpus, d):
    scp = os.path.join(d, "wav.scp")
    with open(scp, "w") as f:
        for u in corpus:
            x = world.make_signal(u)  # (C, S)
            p = os.path.join(d, "k_%s.wav" % u["id"])
            w = wave.open(p, "wb")
            w.setnchannels(x.shape[0])
            w.setsampwidth(2)
            w.setframerate(int(u.get("rate", 8000)))
            w.writeframes(np.ascontiguousarray(x.T).astype("<i2").tobytes())
            w.close()
            f.write("%s %s\n" % (u["id"], p))
    return scp


def _global_stats(p, ncoef):
    """(mean, std, count) of a generated global-statistics recipe."""
    g = np.random.default_rng(int(p["global"]["seed"]))
    mu = g.standard_normal(ncoef) * 2.0 - 4.0  # log-energies: negative sums
    sd = 0.5 + 2.5 * g.random(ncoef)
    return mu, sd, int(p["global"]["count"])


def _materialise(scn, d):
    """Scenario whose post-processor entries are what the tool is given: a generated `global` statistics recipe becomes
    an `rfilename` pointing at a 2 x (ncoef + 1) float64 .npy file (sums | count ; sums of squares | 0)."""
    post = scn.get("post") or []
    if not any("global" in p for p in post):
        return scn
    out = []
    for i, p in enumerate(post):
        if "global" not in p:
            out.append(p)
            continue
        assert i == 0, "global statistics only as the first post-processor (dimension = num_coeffs)"
        ncoef = int(configs.build(scn["cfg"]).num_coeffs)
        mu, sd, cnt = _global_stats(p, ncoef)
        st = np.zeros((2, ncoef + 1), dtype=np.float64)
        st[0, :-1] = mu * cnt
        st[0, -1] = cnt
        st[1, :-1] = (sd * sd + mu * mu) * cnt
        path = os.path.join(d, "stats_%d.npy" % i)
        if not os.path.exists(path):
            np.save(path, st)
        q = {k: v for k, v in p.items() if k != "global"}
        q["rfilename"] = path
        out.append(q)
    return dict(scn, post=out)


def _reference_post(scn):
    """Post-processor list for the reference pipeline: generated global statistics are applied from their recipe."""
    out = []
    for p in scn.get("post") or []:
        if "global" in p:
            mu, sd, _ = _global_stats(p, int(configs.build(scn["cfg"]).num_coeffs))
            out.append({"name": "standardize_explicit", "mean": mu, "std": sd, "norm_var": p.get("norm_var", True)})
        else:
            out.append(p)
    return out


def _argv(scn, d, run, outname):
    tool = scn["tool"]
    a = scn["args"]
    cfg_arg = None
    if scn.get("cfg") is not None:
        cfg_arg = world.config_arg(common.alias_computer(scn["cfg"]), run["syntax"], d, "computer_" + outname)
    extra = []
    if a.get("seed") is not None:
        extra.append("--seed=%d" % a["seed"])
    if scn.get("pre"):
        extra.append("--preprocess=" + world.config_arg(scn["pre"], run["syntax"], d, "pre_" + outname))
    if scn.get("post"):
        extra.append("--postprocess=" + world.config_arg(scn["post"], run["syntax"], d, "post_" + outname))
    if a.get("channel") is not None:
        extra.append("--channel=%d" % a["channel"])
    if tool == "torch":
        paths = world.write_corpus(scn["corpus"], d)
        mp = world.write_map(scn["corpus"], paths, d)
        argv = [mp] + ([cfg_arg] if cfg_arg is not None else []) + [os.path.join(d, outname)] + extra
        argv.append("--num-workers=%d" % run.get("num_workers", 0))
        return argv
    scp = _write_kaldi_corpus(scn["corpus"], d)
    if a.get("min_duration") is not None:
        extra.append("--min-duration=%r" % a["min_duration"])
    return ["scp:" + scp, "ark:" + os.path.join(d, outname + ".ark"), cfg_arg] + extra


def _read_output(scn, d, outname):
    """{id: float32 array} in stored order, plus raw bytes per id (torch) for byte comparison."""
    if scn["tool"] == "torch":
        import torch

        files = common.read_dir(os.path.join(d, outname))
        out = {}
        for fn, b in files.items():
            try:
                out[fn] = torch.load(io.BytesIO(b)).numpy()
            except Exception as e:
                out[fn] = e
        return out, files, sorted(files)
    import pydrobert.kaldi.io as kio

    p = os.path.join(d, outname + ".ark")
    out, order = {}, []
    if os.path.exists(p) and os.path.getsize(p):
        with kio.open("ark:" + p, "bm") as table:
            for key, val in table.items():
                order.append(key)
                out[key] = np.array(val)
    return out, None, order


def _expected_ids(scn):
    """(ids that must be stored, {id: poison kind} for excluded ones)"""
    a = scn["args"]
    keep, excluded = [], {}
    for u in scn["corpus"]:
        if scn["tool"] == "kaldi":
            rate = scn["cfg"]["bank"]["rate"]
            dur = u["n"] / float(u.get("rate", rate))
            if a.get("min_duration") is not None and np.float32(dur) < a["min_duration"]:
                excluded[u["id"]] = "min_duration"
                continue
            if u.get("rate", rate) != rate:
                excluded[u["id"]] = "rate_mismatch"
                continue
            if a.get("channel", -1) >= u["channels"]:
                excluded[u["id"]] = "channel_range"
                continue
        keep.append(u["id"])
    return keep, excluded


def execute(scn, keep_trace=False):
    res = Result()
    tr = Trace(keep_trace)
    d = tempfile.mkdtemp(prefix="verif-c09-", dir=env.scratch_base())
    try:
        _run(scn, d, res, tr)
    finally:
        shutil.rmtree(d, ignore_errors=True)
    res.digest = tr.digest()
    res.events = tr.n
    res.trace = tr
    return res


def _run_order_probe(scn, d, res, tr):
    """Run A: dither only. Run B: the full chain. B must equal the chain applied in order to (signal, noise of A)."""
    res.probe("order_probe")
    facts = dict(tool="torch", computer=None, post=[], pre=[p["name"] for p in scn["pre"]], order_probe=True)
    dith = [p for p in scn["pre"] if p["name"] == "dither"]
    outs = []
    for ri, (pre, run) in enumerate(zip((dith, scn["pre"]), scn["runs"])):
        sub = dict(scn, pre=pre)
        argv = _argv(sub, d, run, "out%d" % ri)
        knobs = {"ambient_seed": run.get("ambient", ri), "pool": "sim", "num_workers": run.get("num_workers", 0),
                 "schedule": run.get("schedule", [])}
        r = child.run_tool("torch", argv, d, None, knobs)
        tr.log("run", ri, r["exit"])
        if r["exit"] != 0:
            res.violate("TOOL_FAILED", "torch tool exited with %s in the order probe" % r["exit"], phase="run", **facts)
            return
        stored, _, order = _read_output(sub, d, "out%d" % ri)
        outs.append(stored)
    coeff = [p for p in scn["pre"] if p["name"] == "preemphasize"][0]["coeff"]
    dither_first = scn["pre"][0]["name"] == "dither"

    def preemph(v):
        y = v.copy()
        y[1:] -= coeff * v[:-1]
        return y

    for u in scn["corpus"]:
        x = world.make_signal(u)[0]
        a = outs[0].get(u["id"] + ".pt")
        b = outs[1].get(u["id"] + ".pt")
        if not isinstance(a, np.ndarray) or not isinstance(b, np.ndarray) or a.shape != (len(x), 1) or b.shape != (len(x), 1):
            res.violate("CONSERVATION", "order probe: %s stored as %s / %s" % (
                u["id"], getattr(a, "shape", a), getattr(b, "shape", b)), phase="conservation", **facts)
            return
        noise = a[:, 0].astype(np.float64) - x
        want = preemph(x + noise) if dither_first else preemph(x) + noise
        other = preemph(x) + noise if dither_first else preemph(x + noise)
        err = np.abs(b[:, 0].astype(np.float64) - want).max() if len(x) else 0.0
        tol = 1e-3 * (1.0 + np.abs(x).max() * 1e-3)
        tr.log("probe", u["id"], float(err) <= tol)
        if err > tol:
            err_other = np.abs(b[:, 0].astype(np.float64) - other).max()
            res.violate("PRE_ORDER", "utterance %s: chain %s stored samples that differ (max %.3g) from the chain applied "
                        "in order to the signal plus the noise recovered from a dither-only run%s" % (
                            u["id"], [p["name"] for p in scn["pre"]], err,
                            " - they match the REVERSED order" if err_other <= tol else ""), phase="values", **facts)
            return
    res.signature = "orderprobe/%s/%s" % ("d-p" if dither_first else "p-d", len(scn["corpus"]))
    res.nontrivial = True


def _run(scn, d, res, tr):
    if scn.get("order_probe"):
        return _run_order_probe(scn, d, res, tr)
    tool = scn["tool"]
    res.probe(tool + "_tool")
    cfg = scn.get("cfg")
    a = scn["args"]
    facts = dict(tool=tool, computer=(cfg or {}).get("computer"), post=[p["name"] for p in scn.get("post", [])],
                 pre=[p["name"] for p in scn.get("pre", [])])
    dither = any(p["name"] == "dither" for p in scn.get("pre", []))
    if dither and a.get("seed") is None:
        res.signature = "out-of-domain"
        return
    if cfg is None:
        res.probe("raw_no_computer")
    elif cfg["computer"] == "si":
        res.probe("si_computer")
    if any(p["name"] == "preemphasize" for p in scn.get("pre", [])):
        res.probe("preemphasis")
    if scn.get("post"):
        res.probe("postprocess")
    if scn.get("long"):
        res.probe("utterance_longer_than_2_20")
    keep, excluded = _expected_ids(scn)
    for kind in excluded.values():
        res.fault("poison_" + kind)
    outs = []
    for ri, run in enumerate(scn["runs"]):
        outname = "out%d" % ri
        real = _materialise(scn, d)
        argv = _argv(real, d, run, outname)
        if run["syntax"] == "yaml":
            res.probe("yaml_config")
        elif run["syntax"] == "json":
            res.probe("json_file_config")
        knobs = {"ambient_seed": run.get("ambient", ri), "pool": "sim", "num_workers": run.get("num_workers", 0),
                 "schedule": run.get("schedule", [])}
        if tool == "torch" and run.get("num_workers", 0) > 0:
            res.probe("workers_sim")
        if scn.get("warm_cfg") is not None and run["syntax"] != "inline" and scn.get("cfg") is not None \
                and not run.get("cold"):
            # first an invocation with another configuration under the same file names, then the files are rewritten
            res.probe("same_process_config_rewritten")
            stem = "computer_" + outname
            final_text = open(os.path.join(d, stem + (".json" if run["syntax"] == "json" else ".yaml"))).read()
            cfg_path = world.config_arg(common.alias_computer(scn["warm_cfg"]), run["syntax"], d, stem)
            warm_argv = [a.replace(outname, outname + "_warm") if (outname in a and not a.startswith(cfg_path)
                                                                   and "computer_" not in a and "pre_" not in a
                                                                   and "post_" not in a) else a for a in argv]
            knobs["pre_runs"] = [{"argv": warm_argv, "rewrite": {cfg_path: final_text}}]
        if run.get("cold"):
            res.probe("fresh_interpreter_other_hashseed")
            r = child.run_tool_cold(tool, argv, d, run["hashseed"], knobs["ambient_seed"])
        else:
            r = child.run_tool(tool, argv, d, None, knobs)
        exc = [u for n, u, c in r["events"] if n == "exception"]
        tr.log("run", ri, r["exit"], exc)
        expect_exit = 0 if (keep or tool == "torch") else 1
        if r["exit"] != expect_exit:
            err = ""
            try:
                with open(os.path.join(d, "stderr.txt")) as f:
                    err = f.read()[-400:].replace("\n", " | ")
            except IOError:
                pass
            res.violate("TOOL_FAILED", "%s tool exited with %s (expected %d)%s; %d utterances, excluded %s; stderr: %s" % (
                tool, r["exit"], expect_exit, (" raising " + exc[0]) if exc else "", len(scn["corpus"]),
                excluded, err), phase="run", **facts)
            return
        stored, raw, order = _read_output(scn, d, outname)
        outs.append((stored, raw, order))
        # ---- conservation ----
        if tool == "torch":
            want = sorted(u + ".pt" for u in keep)
            name = lambda u: u + ".pt"  # noqa: E731
        else:
            want = list(keep)
            name = lambda u: u  # noqa: E731
        got = list(order)
        if sorted(got) != sorted(want):
            res.violate("CONSERVATION", "run %d stored %s, expected exactly %s (excluded: %s)" % (
                ri, got, want, excluded), phase="conservation", **facts)
            return
        # ---- values ----
        if not dither:
            use_log = bool(cfg is not None and cfg.get("use_log", True))
            for u in scn["corpus"]:
                if u["id"] not in keep:
                    continue
                x = world.make_signal(u)
                if u.get("silence"):
                    res.probe("silent_stretch")
                if u.get("nan_at") is not None:
                    res.probe("nan_sample")
                if u["id"].startswith("#"):
                    res.probe("id_starting_with_hash")
                ch = a.get("channel", -1)
                if x.shape[0] > 1:
                    res.probe("multichannel_select")
                    if ch in (-1, None):
                        res.probe("kaldi_default_channel0")
                ref = refpipe.reference(x, cfg, scn.get("pre", []), _reference_post(scn), ch)
                got_a = stored[name(u["id"])]
                if cfg is not None and use_log:
                    base, sig = refpipe.reference(x, cfg, scn.get("pre", []), [], ch, want_signal=True)
                    comp = configs.build(cfg)
                    amp = refpipe.frame_amplitude(sig, base.shape[0], int(comp.frame_length), int(comp.frame_shift))
                    if tool == "kaldi" or cfg["computer"] != "stft":
                        amp = amp * 0.0  # NumPy on both sides: only the final float32 cast differs
                if isinstance(got_a, Exception):
                    res.violate("UNREADABLE", "stored features of %s cannot be loaded: %r" % (u["id"], got_a),
                                phase="values", **facts)
                    return
                if ref.shape[0] == 0:
                    res.probe("zero_length_utterance" if u["n"] == 0 else "too_short_utterance")
                    if cfg is not None and cfg.get("include_energy"):
                        res.probe("include_energy_empty")
                if tool == "kaldi" and ref.shape[0] == 0 and got_a.shape[0] == 0:
                    continue  # a Kaldi table cannot represent the column count of a matrix without rows
                if got_a.dtype != np.float32:
                    res.violate("DTYPE", "features of %s stored as %s, expected float32" % (u["id"], got_a.dtype),
                                phase="values", **facts)
                    return
                glob = [p for p in scn.get("post", []) if "global" in p]
                if glob:
                    res.probe("standardize_global_stats")
                    if ref.shape[0] == 1:
                        res.probe("standardize_global_one_frame")
                elif any(p["name"] == "standardize" for p in scn.get("post", [])):
                    if ref.shape[0] < 2:
                        continue
                    # compare only where the zero-variance replacement cannot be straddled
                    base = refpipe.reference(x, cfg, scn.get("pre", []),
                                             scn["post"][: [p["name"] for p in scn["post"]].index("standardize")], ch)
                    if base.shape[0] < 2 or (base.astype(np.float64).var(axis=0) < 1e-3).any():
                        continue
                up = bool(cfg.get("use_power")) if cfg is not None else False
                if use_log and not scn.get("post"):
                    bad = refpipe.close_linear(got_a, ref, amp, up)
                elif use_log:
                    # linear post-processing of log features: allow what single precision does to the smallest
                    # coefficient of a frame (times the gain of the post-processors)
                    gain = 2.0
                    if glob:
                        if glob[0].get("norm_var", True):
                            gain = 2.0 / float(_global_stats(glob[0], base.shape[1])[1].min())
                    elif any(p["name"] == "standardize" for p in scn["post"]):
                        sd = base.astype(np.float64).std(axis=0) if base.shape[0] > 1 else np.ones(1)
                        gain = 2.0 / max(float(sd.min()), 0.03)
                    bad = refpipe.close(got_a, ref, True, slack=gain * refpipe.log_slack(base, amp, up))
                else:
                    bad = refpipe.close(got_a, ref, bool(scn.get("post")))
                if bad:
                    res.violate("VALUES", "%s tool, utterance %s (n=%d, %d ch): %s; cfg=%s pre=%s post=%s" % (
                        tool, u["id"], u["n"], u["channels"], bad, (cfg or {}).get("computer"),
                        [p["name"] for p in scn.get("pre", [])], [p["name"] for p in scn.get("post", [])]),
                        phase="values", **facts)
                    return
    # ---- the two runs (different syntax, ambient state, workers) must agree ----
    if len(outs) == 2:
        if dither:
            res.probe("dither_determinism")
        s0, raw0, _ = outs[0]
        s1, raw1, _ = outs[1]
        for k0 in sorted(s0):
            a0, a1 = s0[k0], s1.get(k0)
            if isinstance(a0, Exception) or isinstance(a1, Exception) or a1 is None:
                continue
            if a0.shape != a1.shape or not np.array_equal(a0, a1, equal_nan=True):
                res.violate("RUNS_DIFFER", "features of %s differ between run 0 (%s, workers %d) and run 1 (%s, workers %d)"
                            " with --seed=%s" % (k0, scn["runs"][0]["syntax"], scn["runs"][0].get("num_workers", 0),
                                                 scn["runs"][1]["syntax"], scn["runs"][1].get("num_workers", 0),
                                                 a.get("seed")), phase="determinism", dither=dither, **facts)
                return
    n = len(keep)
    res.signature = "%s/%s/pre:%s/post:%s/%s/poison:%s/%s-%s/w%s/n%s" % (
        tool, (cfg or {}).get("computer", "raw"), "+".join(p["name"][:3] for p in scn.get("pre", [])),
        "+".join(p["name"][:3] for p in scn.get("post", [])), "+".join(sorted(set(u["container"] for u in scn["corpus"]))),
        "+".join(sorted(set(excluded.values()))), scn["runs"][0]["syntax"], scn["runs"][1]["syntax"] if len(scn["runs"]) > 1 else "",
        "".join(str(r.get("num_workers", 0)) for r in scn["runs"]), "1" if n <= 1 else ("s" if n <= 3 else "m"))
    res.nontrivial = bool((n >= 2 and not dither) or excluded)


def minimise(scn, test, budget):
    scn = copy.deepcopy(scn)
    if not test(scn):
        return scn
    if len(scn["runs"]) > 1:
        for keep in (0, 1):
            c = copy.deepcopy(scn)
            c["runs"] = [scn["runs"][keep]]
            if budget.take() and test(c):
                scn = c
                break
    cs = shrink.ddmin_list(scn["corpus"], lambda l: bool(l) and test(dict(scn, corpus=l)), budget)
    scn["corpus"] = cs
    for key in ("post", "pre"):
        if scn.get(key):
            lst = shrink.ddmin_list(scn[key], lambda l, key=key: test(dict(scn, **{key: l})), budget)
            scn[key] = lst
    for ri in range(len(scn["runs"])):
        for path, vals in ((("runs", ri, "syntax"), ["inline"]), (("runs", ri, "num_workers"), [0])):
            scn = shrink.try_replace(scn, list(path), vals, test, budget)
    if scn.get("cfg") is not None:
        from sim.clisim.c10 import _cfg_small

        c = copy.deepcopy(scn)
        c["cfg"] = _cfg_small("stft")
        for u in c["corpus"]:
            if "rate" in u:
                u["rate"] = 8000 if u["rate"] == scn["cfg"]["bank"]["rate"] else u["rate"]
        if budget.take() and test(c):
            scn = c
        else:
            for repl in configs.simplify_candidates(scn["cfg"]):
                c = copy.deepcopy(scn)
                c["cfg"].update(repl)
                if budget.take() and test(c):
                    scn = c
    return scn
