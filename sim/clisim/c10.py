"""C10 - signals-to-torch-feat-dir survives kill/resume and parallelism unchanged.

System: the real tool (entry function, dataset class, torch modules, read_signal, torch.save,
the text buffering of the manifest) run in a forked child per run. Simulator: a line-event
scheduler that decides where the process dies (hard kill = os._exit, soft interrupt =
KeyboardInterrupt), torn writes of the in-flight feature file, multi-crash/resume sequences,
a stale output directory, the manifest's buffer size, the ambient RNG state, and a simulated
worker pool whose interleaving is part of the scenario. Oracle: an uninterrupted
--num-workers 0 run of the same command in its own directory (the golden run)."""
import copy
import json
import os
import shutil
import tempfile

from sim.clisim import child, common, world
from sim.core import env, shrink
from sim.core.trace import Result, Trace, canon
from sim.streamsim import configs

PROPERTY = "C10"
LEVEL = "fault_enumeration"
TIERS = {
    "quick": {"runs": 2800, "budget": 150, "selftest": 24, "shrink_budget": 80, "chunk": 16, "task_timeout": 900},
    "thorough": {"runs": 60000, "budget": 2400, "selftest": 400, "shrink_budget": 200, "chunk": 16, "task_timeout": 1800},
}
RUN_TIMEOUT_S = 300
HISTORY_REPLAY = False  # every tool run is a forked child: nothing can leak from one scenario into the next
RULE = (
    "Fault enumeration: for three fixed base scenarios (plain STFT 4 utterances; STFT + --seed + dither 3 utterances "
    "with prefix ids; SI computer + 2 simulated workers 3 utterances) EVERY traced line event of the tool function and "
    "of the dataset's __getitem__ is used once as a HARD_KILL point and once as a SOFT_INTERRUPT point, every return "
    "from a C call made by those frames (sys.setprofile c_return: where a signal arriving during print / torch.save is "
    "delivered) once as a SOFT_INTERRUPT point, every 5th line "
    "event inside torch/serialization.py (every one in the thorough tier) likewise, plus a torn in-flight feature "
    "file at 8 lengths per utterance; each followed by one fault-free re-run; for base 0 also two-step histories (a "
    "first hard kill after two utterances, then a hard kill at every 2nd line event of the resumed run). The remaining runs are seeded random "
    "scenarios: 1-8 utterances (ids that are prefixes of one another included), configuration swarm, pre/post-"
    "processors, --seed / dither, worker counts 0-4 with seeded interleavings of the simulated pool, manifest buffer "
    "size knob, stale output directory, ambient RNG state per run, and sequences of up to 3 crash/resume cycles. "
    "Non-trivial = a fault fired (the process actually died at the chosen point) or workers > 0. Distinct = distinct "
    "(anchor class of each crash: setup / in-getitem / before-save / in-save / between save and manifest / after-"
    "manifest, fault kind, torn?, W, number of cycles, #utterances already complete)."
)
COMPONENTS = {
    "signals_to_torch_feat_dir, _FeatureProcessorDataset, PyTorch* modules, read_signal": "real",
    "torch.save / torch.load, argparse FileType('a+') text buffering, the file system": "real (dependency)",
    "torch.utils.data.DataLoader with --num-workers > 0": "stub (simulated pool, appendix B); real loader cross-checked "
                                                          "in fault-free thorough runs",
    "process death (hard kill, soft interrupt), torn file writes": "stub (simulator: os._exit / KeyboardInterrupt at "
                                                                   "a traced line event, truncated golden bytes)",
}
ASSUMPTIONS = [
    "kill and interrupt semantics, not power loss: bytes already passed to write(2) survive the crash",
    "interruption points are Python line events of the tool, the dataset and torch/serialization.py; a kill between "
    "the C++ writer's write calls is modelled by TORN_WRITE (in-flight file cut to a seeded prefix of its final bytes)",
    "torch.save is byte-deterministic (re-checked: the golden run is executed twice in the base scenarios)",
    "dither is only generated together with a fixed --seed (without it the statement promises nothing)",
    "sampling beyond the enumerated base scenarios; exhaustive only over the Python-level interruption points of the "
    "three base scenarios",
]
PROBES = [
    "crash_in_setup", "crash_in_getitem", "crash_in_save", "crash_between_save_and_manifest",
    "crash_after_manifest", "soft_interrupt", "torn_write", "multi_cycle", "resume_skipped_prefix", "stale_dir",
    "workers_sim", "workers_real_dataloader", "fresh_interpreter_other_hashseed", "prefix_ids", "dither_seeded", "small_manifest_buffer", "all_done_before_crash",
]
FAULT_KINDS = ["HARD_KILL", "SOFT_INTERRUPT", "TORN_WRITE", "STALE_DIR", "MULTI"]
EXHAUSTIVE = {}


# ------------------------------------------------------------------------------------------- scenarios

def _cfg_small(kind="stft"):
    if kind == "stft":
        return {"computer": "stft", "bank": {"kind": "fbank", "rate": 8000, "num_filts": 3, "low_hz": 20.0,
                                            "high_hz": 3800.0, "analytic": False},
                "window": {"name": "default"}, "frame_style": None, "include_energy": False, "pad2": True,
                "use_log": True, "use_power": False, "kaldi_shift": False, "frame_length": 64, "frame_shift": 32}
    return {"computer": "si", "bank": {"kind": "gabor", "rate": 8000, "num_filts": 2, "low_hz": 100.0,
                                      "high_hz": 3000.0, "scale": {"name": "mel"}, "erb": False},
            "window": {"name": "default"}, "frame_style": None, "include_energy": True, "pad2": True,
            "use_log": True, "use_power": False, "frame_shift": 6}


def _base(i):
    if i == 0:
        corpus = [{"id": "utt%d" % j, "container": c, "n": n, "seed": 100 + j, "channels": 1, "store_dtype": "float32"}
                  for j, (c, n) in enumerate([("npy", 300), ("pt", 210), ("wav", 500), ("npy", 90)])]
        return {"corpus": corpus, "cfg": _cfg_small("stft"), "pre": [], "post": [],
                "args": {"seed": None, "num_workers": 0}, "knobs": {"pool": "sim"}, "stale": []}
    if i == 1:
        corpus = [{"id": uid, "container": c, "n": n, "seed": 200 + j, "channels": 1, "store_dtype": "float64"}
                  for j, (uid, c, n) in enumerate([("uab", "npy", 260), ("u", "npz", 300), ("ua", "pt", 180)])]
        return {"corpus": corpus, "cfg": _cfg_small("stft"), "pre": [{"name": "dither", "coeff": 2.0}],
                "post": [{"name": "deltas", "num_deltas": 1}], "args": {"seed": 0, "num_workers": 0},
                "knobs": {"pool": "sim", "manifest_buffer": 16}, "stale": []}
    corpus = [{"id": "s%d" % j, "container": c, "n": n, "seed": 300 + j, "channels": 1, "store_dtype": "int16"}
              for j, (c, n) in enumerate([("npy", 150), ("hdf5", 220), ("wav", 130)])]
    return {"corpus": corpus, "cfg": _cfg_small("si"), "pre": [{"name": "preemphasize", "coeff": 0.9}], "post": [],
            "args": {"seed": 3, "num_workers": 2}, "knobs": {"pool": "sim", "schedule": [1, 0, 1, 1, 0]}, "stale": []}


_FIXED = {}


def _fixed(tier):
    """The enumerated part: list of scenarios. Needs one traced run per base to count its line events."""
    if tier in _FIXED:
        return _FIXED[tier]
    out = []
    for bi in range(3):
        base = _base(bi)
        n_tool, n_deep, n_cret = _count_points(base)
        _POINTS["base%d" % bi] = {"tool": n_tool, "including_torch_serialization": n_deep, "c_call_returns": n_cret}
        for k in range(0 if os.environ.get("VERIF_C10_NO_CRETURN") else n_cret):  # (development knob)
            s = copy.deepcopy(base)
            s["runs"] = [{"fault": {"kind": "SOFT_INTERRUPT", "scope": "creturn", "at": k}}, {"fault": None}]
            s["enumerated"] = "base%d/creturn/%d" % (bi, k)
            out.append(s)
        for k in range(n_tool):
            for kind in ("HARD_KILL", "SOFT_INTERRUPT"):
                s = copy.deepcopy(base)
                s["runs"] = [{"fault": {"kind": kind, "scope": "tool", "at": k}}, {"fault": None}]
                s["enumerated"] = "base%d/tool/%d" % (bi, k)
                out.append(s)
        step = 5 if tier == "quick" else 1
        for k in range(0, n_deep, step):
            for kind in ("HARD_KILL", "SOFT_INTERRUPT"):
                s = copy.deepcopy(base)
                s["runs"] = [{"fault": {"kind": kind, "scope": "deep", "at": k}}, {"fault": None}]
                s["enumerated"] = "base%d/deep/%d" % (bi, k)
                out.append(s)
        if bi == 0:
            # two-step histories: a first hard kill after two utterances are done, then a hard kill at EVERY tool-level
            # line event of the resumed run (it is shorter than a full run; points beyond its end never fire)
            for k in range(0, n_tool, 1 if tier != "quick" else 2):
                s = copy.deepcopy(base)
                s["runs"] = [{"fault": {"kind": "HARD_KILL", "scope": "tool", "anchor": "save_end", "occurrence": 1, "offset": 1}},
                             {"fault": {"kind": "HARD_KILL", "scope": "tool", "at": k}}, {"fault": None}]
                s["enumerated"] = "base%d/twostep/%d" % (bi, k)
                out.append(s)
        for j in range(len(base["corpus"])):
            for f8 in range(8):
                s = copy.deepcopy(base)
                s["runs"] = [{"fault": {"kind": "HARD_KILL", "scope": "tool", "anchor": "save_begin", "occurrence": j,
                                        "offset": 0}, "torn": (f8 + 0.5) / 8.0 if f8 else 0.0}, {"fault": None}]
                s["enumerated"] = "base%d/torn/%d/%d" % (bi, j, f8)
                out.append(s)
    _FIXED[tier] = out
    return out


def _count_points(base):
    d = tempfile.mkdtemp(prefix="verif-c10w-", dir=env.scratch_base())
    try:
        argv, _ = _prepare(base, d, "out", with_manifest=True)
        r1 = child.run_tool("torch", argv, d, None, dict(base.get("knobs", {}), num_workers=base["args"]["num_workers"]))
        shutil.rmtree(os.path.join(d, "out"), ignore_errors=True)
        try:
            os.unlink(os.path.join(d, "manifest.txt"))
        except OSError:
            pass
        r2 = child.run_tool("torch", argv, d, None, dict(base.get("knobs", {}), num_workers=base["args"]["num_workers"]),
                            count_deep=True)
        if r1["exit"] != 0 or r2["exit"] != 0 or r1["points"] is None or r2["points"] is None:
            raise RuntimeError("base scenario does not run cleanly: %r %r" % (r1, r2))
        return int(r1["points"]), int(r2["points"]), int(r1["cpoints"])
    finally:
        shutil.rmtree(d, ignore_errors=True)


def warmup(tier="quick"):
    _fixed(tier)


_POINTS = {}


def evidence_extra(tier):
    """What the enumerated part covered (measured: the point counts come from traced runs of the base scenarios)."""
    fx = _fixed(tier)
    by = {}
    for s in fx:
        b, scope = s["enumerated"].split("/")[0:2]
        by.setdefault(b, {}).setdefault(scope, 0)
        by[b][scope] += 1
    return {
        "enumerated_scenarios": len(fx),
        "enumerated_breakdown": by,
        "enumerated_space": "per base scenario: every traced line event of signals_to_torch_feat_dir and "
                            "_FeatureProcessorDataset.__getitem__ x {HARD_KILL, SOFT_INTERRUPT}; every %s line event "
                            "including torch/serialization.py x {HARD_KILL, SOFT_INTERRUPT}; 8 torn lengths per feature "
                            "file; each followed by one fault-free re-run" % ("5th" if tier == "quick" else "single"),
        "base_scenario_line_events": dict(_POINTS),
    }


def num_fixed(tier):
    return len(_fixed(tier))


def generate(rng, tier, k):
    fx = _fixed(tier)
    if k < len(fx):
        return copy.deepcopy(fx[k])
    nutt = rng.choice((1, 2, 2, 3, 3, 4, 5, 6, 8))
    corpus = world.gen_corpus(rng, nutt, allow_multi=rng.random() < 0.25, short_ok=True)
    multi = any(u["channels"] > 1 for u in corpus)
    r = rng.random()
    if r < 0.1:
        cfg = None
    else:
        cfg, comp, _ = configs.gen_config(rng, "stft" if rng.random() < 0.75 else "si")
        if comp.frame_length > 400 or not common.torch_portable(cfg, comp):
            cfg = _cfg_small("stft")
    seed = rng.choice((None, None, 0, rng.randrange(0, 1000), rng.randrange(0, 1000)))
    pre, post = [], []
    if rng.random() < 0.3:
        pre.append({"name": "preemphasize", "coeff": rng.choice((0.97, 0.5))})
    if seed is not None and rng.random() < 0.5:
        pre.append({"name": "dither", "coeff": rng.choice((1.0, 5.0))})
    if cfg is not None and rng.random() < 0.3:
        post.append(rng.choice(({"name": "deltas", "num_deltas": 1}, {"name": "stack", "num_vectors": 2})))
    W = rng.choice((0, 0, 0, 1, 2, 3, 4))
    knobs = {"pool": "sim", "schedule": [rng.randrange(8) for _ in range(4 * nutt)],
             "manifest_buffer": rng.choice((None, None, 16, 64, 4096))}
    args = {"seed": seed, "num_workers": W}
    if multi:
        args["channel"] = rng.randrange(0, 2)
    if rng.random() < 0.2:
        args["file_prefix"] = rng.choice(("f_", "x"))
    if rng.random() < 0.2:
        args["file_suffix"] = rng.choice((".feat", ".pt2", ""))
    stale = []
    if rng.random() < 0.2:
        for u in rng.sample(corpus, min(len(corpus), rng.randrange(1, 3))):
            stale.append({"id": u["id"], "kind": rng.choice(("garbage", "empty"))})
        stale.append({"id": "zz_unrelated", "kind": "garbage"})
    runs = []
    ncyc = rng.choice((1, 1, 1, 2, 2, 3))
    for c in range(ncyc):
        kind = rng.choice(("HARD_KILL", "HARD_KILL", "SOFT_INTERRUPT"))
        r = rng.random()
        occ = rng.randrange(0, nutt)
        if r < 0.3:
            f = {"kind": kind, "scope": "tool", "anchor": "save_end", "occurrence": occ, "offset": rng.randrange(0, 4)}
        elif r < 0.5:
            f = {"kind": kind, "scope": "deep", "anchor": "save_begin", "occurrence": occ, "offset": rng.randrange(1, 150)}
        elif r < 0.65:
            f = {"kind": kind, "scope": "tool", "anchor": "getitem", "occurrence": occ, "offset": rng.randrange(0, 25)}
        elif r < 0.8:
            f = {"kind": "HARD_KILL", "scope": "tool", "anchor": "save_begin", "occurrence": occ, "offset": 0}
        elif r < 0.9 and not os.environ.get("VERIF_C10_NO_CRETURN"):
            f = {"kind": "SOFT_INTERRUPT", "scope": "creturn", "at": rng.randrange(0, 80 + 12 * nutt)}
        else:
            f = {"kind": kind, "scope": "tool", "at": rng.randrange(0, 60 + 30 * nutt)}
        run = {"fault": f, "ambient": rng.randrange(1 << 20)}
        if f.get("anchor") == "save_begin" and f.get("offset") == 0:
            run["torn"] = rng.choice((0.0, rng.random(), rng.random(), 0.999))
        if rng.random() < 0.3:
            run["num_workers"] = rng.choice((0, 1, 2, 3))
        runs.append(run)
    runs.append({"fault": None, "ambient": rng.randrange(1 << 20)})
    if rng.random() < 0.012:
        # fresh interpreters with their own string-hash salt (what separate invocations of the command really are):
        # a kill after k feature files, then the re-run, each with another PYTHONHASHSEED
        runs = [{"cold": True, "hashseed": rng.randrange(1, 4000), "kill_after_saves": rng.randrange(1, nutt + 1),
                 "ambient": rng.randrange(1 << 20)},
                {"cold": True, "hashseed": rng.randrange(4000, 8000), "ambient": rng.randrange(1 << 20)}]
        args["num_workers"] = 0
        stale = []
    elif rng.random() < (0.04 if tier == "quick" else 0.08):
        # cross-check of the simulated pool: the genuine multi-process DataLoader, no crash faults
        knobs["pool"] = "real"
        args["num_workers"] = rng.choice((1, 2, 3))
        runs = [{"fault": None, "ambient": rng.randrange(1 << 20)}]
    return {"corpus": corpus, "cfg": cfg, "pre": pre, "post": post, "args": args, "knobs": knobs, "stale": stale,
            "runs": runs}


# ------------------------------------------------------------------------------------------- execution

def _prepare(scn, d, outname, with_manifest, num_workers=None, syntax="inline"):
    mp = os.path.join(d, "map.txt")
    if not os.path.exists(mp):  # the corpus is written once per scenario: runs of one scenario share their inputs
        paths = world.write_corpus(scn["corpus"], d)
        mp = world.write_map(scn["corpus"], paths, d)
    else:
        paths = None
    argv = [mp]
    if scn.get("cfg") is not None:
        argv.append(world.config_arg(common.alias_computer(scn["cfg"]), syntax, d, "computer"))
    argv.append(os.path.join(d, outname))
    a = scn.get("args", {})
    if a.get("seed") is not None:
        argv.append("--seed=%d" % a["seed"])
    if scn.get("pre"):
        argv.append("--preprocess=" + json.dumps(scn["pre"]))
    if scn.get("post"):
        argv.append("--postprocess=" + json.dumps(scn["post"]))
    if a.get("channel") is not None:
        argv.append("--channel=%d" % a["channel"])
    if a.get("file_prefix"):
        argv.append("--file-prefix=" + a["file_prefix"])
    if a.get("file_suffix") is not None:
        argv.append("--file-suffix=" + a["file_suffix"])
    W = a.get("num_workers", 0) if num_workers is None else num_workers
    argv.append("--num-workers=%d" % W)
    if with_manifest:
        argv.append("--manifest=" + os.path.join(d, "manifest.txt"))
    return argv, paths


def _fname(scn, uid):
    a = scn.get("args", {})
    return a.get("file_prefix", "") + uid + a.get("file_suffix", ".pt")


_GOLD = {}


def _golden(scn, d):
    key = canon([scn["corpus"], scn.get("cfg"), scn.get("pre"), scn.get("post"),
                 {k: v for k, v in scn.get("args", {}).items() if k != "num_workers"}])
    if key in _GOLD:
        return _GOLD[key]
    argv, _ = _prepare(scn, d, "gold", with_manifest=False, num_workers=0)
    r = child.run_tool("torch", argv, d, None, {"ambient_seed": 99})
    files = common.read_dir(os.path.join(d, "gold"))
    g = {"exit": r["exit"], "files": files, "events": r["events"]}
    if len(_GOLD) < 8:
        _GOLD[key] = g
    return g


def _anchor_class(events, killed_at, fault, torn):
    """Where the process died, relative to the logged anchor events (by their line counters)."""
    if torn is not None:
        return "in-save"
    last = None
    for name, utt, cnt in events:
        if name in ("save_begin", "save_end", "getitem", "read"):
            last = name
    if last is None:
        return "setup"
    if last == "save_begin":
        return "in-save"
    if last == "save_end":
        # the manifest print is the next traced line after torch.save returns
        cnt_end = [c for n, u, c in events if n == "save_end"][-1]
        return "save-to-manifest" if killed_at - cnt_end <= 2 else "after-manifest"
    if last in ("getitem", "read"):
        return "in-getitem"
    return "setup"


def execute(scn, keep_trace=False):
    res = Result()
    tr = Trace(keep_trace)
    d = tempfile.mkdtemp(prefix="verif-c10-", dir=env.scratch_base())
    try:
        _run(scn, d, res, tr)
    finally:
        shutil.rmtree(d, ignore_errors=True)
    res.digest = tr.digest()
    res.events = tr.n + res.probes.get("_line_events", 0)
    res.probes.pop("_line_events", None)
    res.trace = tr
    return res


def _run(scn, d, res, tr):
    corpus = scn["corpus"]
    ids = [u["id"] for u in corpus]
    facts = {}
    if any(p.get("name") == "dither" for p in scn.get("pre", [])) and scn.get("args", {}).get("seed") is None:
        # randomised pre-processing without a fixed --seed: the statement promises nothing (minimiser candidates only)
        res.signature = "out-of-domain"
        return
    gold = _golden(scn, d)
    if gold["exit"] != 0:
        # the command itself does not run: nothing to interrupt (vacuous for C10)
        res.signature = "golden-failed"
        res.probe("vacuous_golden_run_failed")
        tr.log("golden_failed", gold["exit"])
        return
    gfiles = gold["files"]
    want = {_fname(scn, u): gfiles.get(_fname(scn, u)) for u in ids}
    if any(v is None for v in want.values()) or set(gfiles) != set(want):
        res.signature = "golden-incomplete"
        res.probe("vacuous_golden_run_incomplete")
        tr.log("golden_incomplete", sorted(gfiles))
        return
    tr.log("golden", sorted((k, common.sha(v)) for k, v in gfiles.items()))
    out = os.path.join(d, "out")
    man = os.path.join(d, "manifest.txt")
    if len(set(len(i) for i in ids)) > 1 and any(a != b and b.startswith(a) for a in ids for b in ids):
        res.probe("prefix_ids")
    if any(p["name"] == "dither" for p in scn.get("pre", [])):
        res.probe("dither_seeded")
    mb = scn.get("knobs", {}).get("manifest_buffer")
    if mb and int(mb) < 100:
        res.probe("small_manifest_buffer")
    stale_names = set()
    if scn.get("stale"):
        os.makedirs(out, exist_ok=True)
        res.fault("STALE_DIR")
        res.probe("stale_dir")
        for s in scn["stale"]:
            fn = _fname(scn, s["id"])
            with open(os.path.join(out, fn), "wb") as f:
                f.write(b"" if s["kind"] == "empty" else b"\x80\x02garbage-not-a-tensor" * 3)
            if s["id"] not in ids:
                stale_names.add(fn)
    runs = scn["runs"]
    if len([r for r in runs if r.get("fault")]) >= 2:
        res.fault("MULTI")
        res.probe("multi_cycle")
    sig = []
    lines_total = 0
    completed_ever = []  # utterances whose save_end was observed in any run, in order
    for ri, run in enumerate(runs):
        fault = run.get("fault")
        if run.get("cold") and run.get("kill_after_saves") is not None:
            fault = {"kind": "HARD_KILL", "scope": "cold", "after_saves": run["kill_after_saves"]}
        W = run.get("num_workers", scn["args"].get("num_workers", 0))
        argv, _ = _prepare(scn, d, "out", with_manifest=True, num_workers=W)
        listed_before, _tail = common.manifest_ids(man)
        stat_before = common.stat_dir(out)
        knobs = dict(scn.get("knobs", {}))
        knobs["num_workers"] = W
        knobs["ambient_seed"] = run.get("ambient", 1000 + ri)
        if W > 0 and knobs.get("pool") == "sim":
            res.probe("workers_sim")
        elif W > 0:
            res.probe("workers_real_dataloader")
        if run.get("cold"):
            res.probe("fresh_interpreter_other_hashseed")
            r = child.run_tool_cold("torch", argv, d, run["hashseed"], knobs["ambient_seed"], run.get("kill_after_saves"))
            if r["exit"] == child.EXIT_HARD:
                r["killed"] = ("HARD_KILL", 0)
                res.fault("HARD_KILL")
        else:
            r = child.run_tool("torch", argv, d, fault, knobs)
        lines_total += (r["killed"][1] if r["killed"] else (r["points"] or 0))
        ev = [(n, u) for n, u, c in r["events"] if n in ("read", "save_begin", "save_end", "getitem", "exception")]
        if not (W > 0 and knobs.get("pool") == "real"):
            tr.log("run", ri, r["exit"], ev, r["killed"][0] if r["killed"] else None)
        else:
            tr.log("run", ri, r["exit"])
        fired = r["killed"] is not None
        torn = run.get("torn")
        if fault and fired:
            res.fault(fault["kind"])
            if fault["kind"] == "SOFT_INTERRUPT":
                res.probe("soft_interrupt")
        elif fault and not fired and r["exit"] in (child.EXIT_HARD, child.EXIT_SOFT):
            fired = True
        # the in-flight utterance (save begun, not ended) and a torn write of its file
        begun = [u for n, u in ev if n == "save_begin"]
        ended = [u for n, u in ev if n == "save_end"]
        inflight = begun[-1] if len(begun) > len(ended) else None
        if fired and torn is not None and inflight is not None and inflight in gfiles:
            gb = gfiles[inflight]
            with open(os.path.join(out, inflight), "wb") as f:
                f.write(gb[: int(float(torn) * len(gb))])
            res.fault("TORN_WRITE")
            res.probe("torn_write")
        cls = "none"
        if fired:
            cls = _anchor_class(r["events"], r["killed"][1] if r["killed"] else 0, fault,
                                torn if inflight else None)
            res.probe({"setup": "crash_in_setup", "in-getitem": "crash_in_getitem", "in-save": "crash_in_save",
                       "save-to-manifest": "crash_between_save_and_manifest",
                       "after-manifest": "crash_after_manifest"}.get(cls, "crash_in_setup"))
            if len(ended) == len(ids) - len(listed_before) and ended:
                res.probe("all_done_before_crash")
        sig.append("%s:%s%s:W%d:c%d" % (cls, (fault or {}).get("kind", "-")[:4], "T" if (torn is not None and fired) else "",
                                       W, len(ended)))
        for u in ended:
            completed_ever.append(u)
        facts = dict(run=ri, fault=(fault or {}).get("kind"), where=cls, workers=W, torn=torn is not None)
        if not fault and r["exit"] != 0:
            exc = [u for n, u in ev if n == "exception"]
            res.violate("RERUN_FAILED", "fault-free run %d exited with %s%s after %s" % (
                ri, r["exit"], (" (%s)" % exc[0]) if exc else "", sig[:-1] or "nothing"), **facts)
            break
        if fault and not fired and r["exit"] != 0:
            exc = [u for n, u in ev if n == "exception"]
            res.violate("RERUN_FAILED", "run %d (fault point never reached) exited with %s%s" % (
                ri, r["exit"], (" (%s)" % exc[0]) if exc else ""), **facts)
            break
        # ---- invariants on the durable state right after this run ----
        listed, tail = common.manifest_ids(man)
        files_now = common.read_dir(out)
        # (names the tool invented - e.g. random scratch files - are logged by content only: they may differ per run)
        tr.log("state", ri, listed, tail, sorted((k if (k in want or k in stale_names) else "<other>", common.sha(v))
                                                 for k, v in files_now.items()))
        name_of = {_fname(scn, u): u for u in ids}
        bad = None
        for uid in listed:
            fn = _fname(scn, uid)
            if uid not in ids:
                bad = ("I1_MANIFEST_UNKNOWN_ID", "manifest lists %r, which is not an utterance of the map" % uid)
                break
            if fn not in files_now:
                bad = ("I1_MANIFEST_WITHOUT_FILE", "manifest lists %r but %s does not exist" % (uid, fn))
                break
            if files_now[fn] != want[fn]:
                ok = _tensor_equal(files_now[fn], want[fn])
                if ok is None:
                    bad = ("I1_MANIFEST_INCOMPLETE_FILE", "manifest lists %r but %s (%d bytes) is not loadable "
                           "(golden has %d bytes)" % (uid, fn, len(files_now[fn]), len(want[fn])))
                    break
                if not ok:
                    bad = ("I1_MANIFEST_WRONG_FEATURES", "manifest lists %r but %s differs from the uninterrupted run" % (uid, fn))
                    break
        if bad:
            res.violate(bad[0], "after run %d (%s): %s" % (ri, sig[-1], bad[1]), **facts)
            break
        # I6: the manifest never loses an entry (what was completed and listed in an earlier run stays listed)
        lost = [u for u in listed_before if u not in listed]
        if lost:
            res.violate("I6_MANIFEST_LOST_ENTRIES", "run %d (%s) removed %s from the manifest (it listed %s before, %s after)"
                        % (ri, sig[-1], lost, listed_before, listed), **facts)
            break
        # I2: every utterance completed before the interruption is listed, except possibly the one in flight.
        # "Completed" is read off the file system, not off the arguments of torch.save (an implementation is free to
        # write through a scratch name and rename): a feature file that this run created or changed and that now holds
        # its final bytes. At most one such file may be unlisted after an interruption, none after a normal end.
        stat_now = common.stat_dir(out)
        produced = [fn for fn in sorted(want) if files_now.get(fn) == want[fn] and stat_before.get(fn) != stat_now.get(fn)]
        unlisted = [name_of[fn] for fn in produced if name_of[fn] not in listed]
        if len(unlisted) > (1 if fired else 0):
            res.violate("I2_COMPLETED_NOT_LISTED", "after run %d (%s): the feature files of %s were completed by this run "
                        "but the manifest lists only %s (%d files completed in this run)" % (
                            ri, sig[-1], unlisted, listed, len(produced)), **facts)
            break
        # I5: utterances listed before this run are neither recomputed nor rewritten
        redo = [u for n, u in ev if n in ("read",) and u in listed_before]
        redo += [name_of.get(u, u) for n, u in ev if n == "save_begin" and name_of.get(u, u) in listed_before]
        if redo:
            res.violate("I5_LISTED_RECOMPUTED", "run %d recomputed or rewrote %s although the manifest already listed it"
                        % (ri, sorted(set(redo))), **facts)
            break
        stat_after = common.stat_dir(out)
        touched = [u for u in listed_before if stat_before.get(_fname(scn, u)) != stat_after.get(_fname(scn, u))]
        if touched:
            res.violate("I5_LISTED_REWRITTEN", "run %d changed the feature file of already listed %s" % (ri, touched), **facts)
            break
        if ri and listed_before and ended:
            res.probe("resume_skipped_prefix")
    else:
        # ---- after the final fault-free run: the directory equals the golden one ----
        files_now = common.read_dir(out)
        listed, tail = common.manifest_ids(man)
        names_now = set(files_now) - stale_names
        if names_now != set(want):
            res.violate("I4_FILE_SET", "after the final run the directory holds %s, an uninterrupted run %s" % (
                sorted(names_now), sorted(want)), **facts)
        else:
            for fn in sorted(want):
                if files_now[fn] != want[fn]:
                    ok = _tensor_equal(files_now[fn], want[fn])
                    res.violate("I4_FILE_DIFFERS", "after %s and a final re-run, %s %s from the uninterrupted run's file" % (
                        sig[:-1] or "no fault", fn, "is not loadable, unlike" if ok is None else
                        ("holds different features" if ok is False else "differs in bytes (same tensor)")),
                        seeded=scn["args"].get("seed") is not None, **facts)
                    break
            else:
                if sorted(set(listed)) != sorted(ids) or tail:
                    res.violate("I4_MANIFEST_FINAL", "final manifest lists %s (partial line %r), expected every id %s" % (
                        listed, tail, ids), **facts)
    res.probes["_line_events"] = lines_total
    res.signature = "|".join(sig) + "/n%d" % len(ids)
    res.nontrivial = bool(any(k in res.faults for k in ("HARD_KILL", "SOFT_INTERRUPT")) or res.probes.get("workers_sim")
                          or res.probes.get("workers_real_dataloader"))


def _tensor_equal(a, b):
    """True / False for loadable tensors, None if `a` is not loadable."""
    import io

    import torch

    try:
        ta = torch.load(io.BytesIO(a))
    except Exception:
        return None
    tb = torch.load(io.BytesIO(b))
    return bool(ta.shape == tb.shape and ta.dtype == tb.dtype and torch.equal(ta, tb))


def minimise(scn, test, budget):
    scn = copy.deepcopy(scn)
    scn.pop("enumerated", None)
    if not test(scn):
        return scn
    # fewer crash cycles (the last run is the fault-free one and stays)
    if len(scn["runs"]) > 2:
        head = shrink.ddmin_list(scn["runs"][:-1], lambda l: test(dict(scn, runs=l + [scn["runs"][-1]])), budget)
        scn["runs"] = head + [scn["runs"][-1]]
    for key, val in (("stale", []), ("post", []), ("pre", [])):
        if scn.get(key):
            c = copy.deepcopy(scn)
            c[key] = val
            if budget.take() and test(c):
                scn = c
    for path, vals in ((("knobs", "manifest_buffer"), [None]), (("args", "num_workers"), [0]), (("args", "seed"), [None])):
        try:
            scn = shrink.try_replace(scn, list(path), vals, test, budget)
        except KeyError:
            pass
    for r in range(len(scn["runs"])):
        if "num_workers" in scn["runs"][r]:
            c = copy.deepcopy(scn)
            del c["runs"][r]["num_workers"]
            if budget.take() and test(c):
                scn = c
    # fewer utterances (anchored faults refer to occurrences: keep them in range)
    def with_corpus(cs):
        c = copy.deepcopy(scn)
        c["corpus"] = cs
        for run in c["runs"]:
            f = run.get("fault")
            if f and "occurrence" in f:
                f["occurrence"] = min(f["occurrence"], max(0, len(cs) - 1))
        c["stale"] = [s for s in c.get("stale", []) if s["id"] in [u["id"] for u in cs] or s["id"] == "zz_unrelated"]
        return c

    cs = shrink.ddmin_list(scn["corpus"], lambda l: bool(l) and test(with_corpus(l)), budget)
    scn = with_corpus(cs)
    if scn.get("cfg") is not None and scn["cfg"] != _cfg_small("stft"):
        c = copy.deepcopy(scn)
        c["cfg"] = _cfg_small("stft")
        if budget.take() and test(c):
            scn = c
    return scn
