"""Run a command-line tool in a forked child under a line-event scheduler.

The child inherits the warmed-up interpreter of the worker, installs the seams (all of them
call-time lookups or a trace function - no source hook), runs the tool's entry function and
ends with os._exit, so process-global state never leaks between runs and a hard kill is
literal: os._exit(137) at the chosen line event skips every user-space flush, exactly like
SIGKILL, while bytes already handed to write(2) survive in the scratch directory.

Fault record (JSON): {"kind": "HARD_KILL" | "SOFT_INTERRUPT", "scope": "tool" | "deep",
                      "at": k}                      k-th traced line event (0-based), or
                     {..., "anchor": "save_begin" | "save_end" | "getitem" | "read", "occurrence": m, "offset": j}
scope "tool": line events of signals_to_torch_feat_dir and _FeatureProcessorDataset.__getitem__;
scope "deep": additionally the Python frames of torch/serialization.py;
scope "creturn": the k-th return from a C call (print, torch.save, os.path.join, ...) made by those frames, observed
with sys.setprofile - the instant at which a signal that arrived during the call is delivered (soft interrupts only
differ from the next line event when the call sits inside a try block).
"""
import builtins
import gc
import json
import os
import sys

EXIT_HARD = 137
EXIT_SOFT = 130


def preload():
    """Import everything a tool run needs in the parent, so that every forked child starts warm and from the
    same interpreter image (line-event numbering must not depend on what happened to be imported)."""
    import numpy  # noqa: F401
    import torch  # noqa: F401
    import torch.serialization  # noqa: F401
    import torch.utils.data  # noqa: F401

    from sim.core import env

    env.setup_imports()
    from pydrobert.speech import command_line  # noqa: F401

    try:
        import pydrobert.kaldi.io  # noqa: F401
        import pydrobert.kaldi.io.argparse  # noqa: F401
        import pydrobert.kaldi.logging  # noqa: F401
    except ImportError:
        pass
    import h5py  # noqa: F401
    import ruamel.yaml  # noqa: F401
    import wave  # noqa: F401

    from sim.clisim import fakeloader  # noqa: F401

    torch.set_num_threads(1)


preload()


class _Tracer(object):
    def __init__(self, fault, codes, deep_files, logfd):
        self.fault = fault
        self.codes = codes
        self.deep_files = deep_files
        self.deep = bool(fault and fault.get("scope") == "deep") or bool(fault is None and False)
        self.count = 0
        self.logfd = logfd
        self.anchor_seen = {}
        self.armed_at = None
        self.fired = False
        self.want_abs = None
        if fault and "at" in fault and "anchor" not in fault:
            self.want_abs = int(fault["at"])
        self.count_deep = bool(fault and fault.get("scope") == "deep")
        # returns from C calls (print, torch.save, ...) made by the traced frames: where a signal that arrived
        # during the call is actually delivered - inside whatever try block the call sits in
        self.ccount = 0
        self.want_creturn = int(fault["at"]) if (fault and fault.get("scope") == "creturn") else None
        if self.want_creturn is not None:
            self.want_abs = None

    def log(self, *parts):
        os.write(self.logfd, (" ".join(str(p) for p in parts) + "\n").encode())

    def note(self, event, utt=""):
        """Called by the wrappers at anchor events."""
        self.log("E", event, utt, self.count)
        n = self.anchor_seen.get(event, 0)
        self.anchor_seen[event] = n + 1
        f = self.fault
        if f and f.get("anchor") == event and n == int(f.get("occurrence", 0)) and self.armed_at is None:
            self.armed_at = self.count + int(f.get("offset", 0))
            if int(f.get("offset", 0)) == 0:
                self._fire()

    def _fire(self):
        if self.fired:
            return
        self.fired = True
        self.log("K", self.fault["kind"], self.count)
        if self.fault["kind"] == "HARD_KILL":
            os._exit(EXIT_HARD)
        raise KeyboardInterrupt()

    def global_trace(self, frame, event, arg):
        if event != "call":
            return None
        co = frame.f_code
        if co in self.codes or (self.count_deep and co.co_filename in self.deep_files):
            return self.local_trace
        return None

    def profile(self, frame, event, arg):
        if event == "c_return" and frame.f_code in self.codes:
            k = self.ccount
            self.ccount = k + 1
            if self.want_creturn is not None and k == self.want_creturn and not self.fired:
                self._fire()

    def local_trace(self, frame, event, arg):
        if event == "line":
            k = self.count
            self.count = k + 1
            if not self.fired:
                if self.want_abs is not None and k == self.want_abs:
                    self._fire()
                elif self.armed_at is not None and k >= self.armed_at:
                    self._fire()
        return self.local_trace


def run_tool(tool, argv, cwd, fault=None, knobs=None, logname="events.log", count_deep=False):
    """Fork, run `tool` ('torch' or 'kaldi') with argv inside cwd. Returns dict(exit, events, points, killed)."""
    knobs = knobs or {}
    logpath = os.path.join(cwd, logname)
    sys.stdout.flush()
    sys.stderr.flush()
    pid = os.fork()
    if pid == 0:
        code = 98
        try:
            os.setpgid(0, 0)  # own process group: whatever the tool spawns (DataLoader workers) can be reaped with it
            code = _child_main(tool, argv, cwd, fault, knobs, logpath, count_deep)
        except BaseException:  # noqa: B902
            try:
                import traceback

                with open(os.path.join(cwd, "child_error.txt"), "a") as f:
                    traceback.print_exc(file=f)
            except BaseException:  # noqa: B902
                pass
            code = 99
        finally:
            os._exit(code if isinstance(code, int) else 98)
    _, st = os.waitpid(pid, 0)
    try:
        # a hard-killed tool leaves its worker processes behind for a few seconds (they poll for their parent); they
        # hold input files open, so they are removed with the run that owned them
        import signal as _signal

        os.killpg(pid, _signal.SIGKILL)
    except (ProcessLookupError, PermissionError, OSError):
        pass
    if os.WIFSIGNALED(st):
        ex = -os.WTERMSIG(st)
    else:
        ex = os.WEXITSTATUS(st)
    events, points, killed, cpoints = [], None, None, 0
    try:
        with open(logpath) as f:
            for line in f:
                p = line.split()
                if not p:
                    continue
                if p[0] == "E":
                    events.append((p[1], p[2] if len(p) > 3 else "", int(p[-1])))
                elif p[0] == "K":
                    killed = (p[1], int(p[2]))
                elif p[0] == "P":
                    points = int(p[1])
                    cpoints = int(p[2]) if len(p) > 2 else 0
                elif p[0] == "X":
                    events.append(("exception", " ".join(p[1:]), -1))
    except IOError:
        pass
    try:
        os.unlink(logpath)
    except OSError:
        pass
    return {"exit": ex, "events": events, "points": points, "killed": killed, "cpoints": cpoints}


def _child_main(tool, argv, cwd, fault, knobs, logpath, count_deep):
    import signal

    signal.alarm(int(knobs.get("alarm", 120)))
    gc.freeze()  # everything inherited from the parent is immortal here: later collections only see this run's objects
    os.chdir(cwd)
    # temporary files of the tool and of multiprocessing (pymp-* directories of real DataLoader workers, which a hard
    # kill never removes) live and die with the scenario's scratch directory
    import tempfile

    tmpd = os.path.join(cwd, ".tmp")
    os.makedirs(tmpd, exist_ok=True)
    os.environ["TMPDIR"] = tmpd
    tempfile.tempdir = tmpd
    logfd = os.open(logpath, os.O_WRONLY | os.O_CREAT | os.O_TRUNC, 0o644)
    # keep third-party chatter (Kaldi logger, warnings) away from the check's stdout protocol
    errfd = os.open(os.path.join(cwd, "stderr.txt"), os.O_WRONLY | os.O_CREAT | os.O_APPEND, 0o644)
    os.dup2(errfd, 2)
    os.dup2(errfd, 1)
    sys.stdout = open(1, "w", closefd=False)
    sys.stderr = open(2, "w", closefd=False)
    import numpy as np
    import torch

    from pydrobert.speech import command_line as cl

    # ambient RNG state: a perturbation the tools' output must not depend on when --seed is given
    amb = int(knobs.get("ambient_seed", 0))
    np.random.seed(amb % (2 ** 32))
    torch.manual_seed(amb)
    import random as _random

    _random.seed(amb)
    sys.argv = ["tool"]

    codes = set()
    deep_files = set()
    ds_classes = []
    if tool == "torch":
        codes.add(cl.signals_to_torch_feat_dir.__code__)
        # the tool's dataset class(es), whatever they are called: any torch Dataset subclass defined in command_line
        import torch.utils.data as _tud

        for obj in list(vars(cl).values()):
            if isinstance(obj, type) and issubclass(obj, _tud.Dataset) and obj.__module__ == cl.__name__ \
                    and "__getitem__" in vars(obj):
                ds_classes.append(obj)
                gi = obj.__getitem__
                codes.add(getattr(gi, "__wrapped__", gi).__code__)
                codes.add(gi.__code__)
        import torch.serialization as _ser

        deep_files.add(_ser.__file__)
    tr = _Tracer(fault, codes, deep_files, logfd)
    if count_deep:
        tr.count_deep = True

    # --- seams -------------------------------------------------------------------------------
    real_save = torch.save

    def save(obj, f, *a, **kw):
        utt = os.path.basename(f) if isinstance(f, str) else "?"
        tr.note("save_begin", utt)
        r = real_save(obj, f, *a, **kw)
        tr.note("save_end", utt)
        return r

    torch.save = save
    real_read = cl.read_signal

    def read(path, *a, **kw):
        tr.note("read", kw.get("key", "?"))
        return real_read(path, *a, **kw)

    cl.read_signal = read
    for ds_cls in ds_classes:
        def _wrap(real_getitem):
            def getitem(self, idx):
                tr.note("getitem", idx)
                return real_getitem(self, idx)

            return getitem

        ds_cls.__getitem__ = _wrap(ds_cls.__getitem__)
    mbuf = knobs.get("manifest_buffer")
    if mbuf:
        real_open = builtins.open
        mname = knobs.get("manifest_name", "manifest.txt")

        def open_(file, mode="r", buffering=-1, *a, **kw):
            if isinstance(file, str) and os.path.basename(file) == mname and buffering == -1:
                buffering = int(mbuf)
            return real_open(file, mode, buffering, *a, **kw)

        builtins.open = open_
    if knobs.get("pool") == "sim" and int(knobs.get("num_workers", 0)) > 0:
        from sim.clisim import fakeloader

        fakeloader.install(knobs.get("schedule", []), tr)

    # --- run ----------------------------------------------------------------------------------
    entry = cl.signals_to_torch_feat_dir if tool == "torch" else cl.compute_feats_from_kaldi_tables
    # a long-lived process: earlier invocations of the same tool in this process, each optionally followed by
    # rewriting files (e.g. the configuration file the next invocation will name again)
    for pre in knobs.get("pre_runs", []):
        try:
            entry(list(pre["argv"]))
        except BaseException:  # noqa: B902 - only the main invocation is judged
            pass
        for path, text in pre.get("rewrite", {}).items():
            with open(path, "w") as f:
                f.write(text)
    code = None
    soft = False
    sys.settrace(tr.global_trace)
    sys.setprofile(tr.profile)
    try:
        try:
            code = entry(list(argv))
        finally:
            sys.setprofile(None)
            sys.settrace(None)
    except KeyboardInterrupt:
        soft = True
    except SystemExit as e:
        code = e.code if isinstance(e.code, int) else 1
    except BaseException as e:  # noqa: B902 - the tool crashed on its own
        tr.log("X", type(e).__name__, str(e)[:300].replace("\n", " "))
        code = 70
    if soft:
        # what interpreter shutdown does after an unhandled KeyboardInterrupt: the traceback goes away,
        # objects are finalised, buffered files are flushed on close
        try:
            sys.last_traceback = None
            if hasattr(sys, "last_exc"):
                sys.last_exc = None
        except Exception:
            pass
        gc.collect()
        tr.log("P", tr.count, tr.ccount)
        return EXIT_SOFT
    gc.collect()
    tr.log("P", tr.count, tr.ccount)
    if code is None:
        code = 0
    return int(code) if 0 <= int(code) < 64 else 63


def run_tool_cold(tool, argv, cwd, hashseed, ambient=0, kill_after_saves=None):
    """Run the tool once in a FRESH interpreter with its own PYTHONHASHSEED (string hashing is salted per process in
    real use; the forked children all share the harness's pinned salt). Returns {"exit": code}."""
    import subprocess

    from sim.core import env

    e = dict(os.environ)
    e["PYTHONHASHSEED"] = str(int(hashseed))
    e["VERIF_PINNED"] = "1"
    e["OMP_NUM_THREADS"] = "1"
    e["PYTHONPATH"] = env.VERIF_DIR + os.pathsep + e.get("PYTHONPATH", "")
    os.makedirs(os.path.join(cwd, ".tmp"), exist_ok=True)
    e["TMPDIR"] = os.path.join(cwd, ".tmp")
    spec = {"tool": tool, "argv": list(argv), "cwd": cwd, "ambient": ambient, "kill_after_saves": kill_after_saves}
    with open(os.path.join(cwd, "stderr.txt"), "ab") as err:
        p = subprocess.run([sys.executable, "-m", "sim.clisim.cold", json.dumps(spec)], env=e, cwd=env.VERIF_DIR,
                           stdout=err, stderr=err, timeout=600)
    return {"exit": p.returncode if p.returncode >= 0 else -p.returncode, "events": [], "points": None, "killed": None,
            "cpoints": 0}
