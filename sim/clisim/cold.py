"""Run a command-line tool once in THIS fresh interpreter (started by child.run_tool_cold with its own
PYTHONHASHSEED): `python -m sim.clisim.cold '<json>'`. Exit code: the tool's return code, 137 after the simulated
hard kill (os._exit right after the k-th feature file has been saved, before its manifest line), 70 if the tool raised."""
import json
import os
import sys


def main():
    spec = json.loads(sys.argv[1])
    from sim.core import env

    env.setup_imports()
    import random

    import numpy as np
    import torch

    torch.set_num_threads(1)
    amb = int(spec.get("ambient", 0))
    np.random.seed(amb % (2 ** 32))
    torch.manual_seed(amb)
    random.seed(amb)
    os.chdir(spec["cwd"])
    from pydrobert.speech import command_line as cl

    k = spec.get("kill_after_saves")
    if k is not None:
        real_save = torch.save
        state = {"n": 0}

        def save(obj, f, *a, **kw):
            r = real_save(obj, f, *a, **kw)
            state["n"] += 1
            if state["n"] == int(k):
                os._exit(137)
            return r

        torch.save = save
    entry = cl.signals_to_torch_feat_dir if spec["tool"] == "torch" else cl.compute_feats_from_kaldi_tables
    sys.argv = ["tool"]
    try:
        code = entry(list(spec["argv"]))
    except SystemExit as e:
        code = e.code if isinstance(e.code, int) else 1
    except BaseException as e:  # noqa: B902
        sys.stderr.write("tool raised %s: %s\n" % (type(e).__name__, e))
        code = 70
    sys.stdout.flush()
    os._exit(int(code or 0))


if __name__ == "__main__":
    main()
