"""Shared by C09 and C10: configuration trees for the tools, golden runs, directory snapshots."""
import hashlib
import os

import numpy as np

from sim.streamsim import configs


def alias_scale(sc):
    n = sc["name"]
    if n in ("mel", "bark"):
        return n
    d = {"name": n, "low_hz": sc.get("low_hz", 20.0)}
    if n == "linear":
        d["slope_hz"] = sc.get("slope_hz", 1.0)
    return d


def alias_bank(b):
    kind = b["kind"]
    d = {"num_filts": b["num_filts"], "low_hz": b["low_hz"], "high_hz": b["high_hz"], "sampling_rate": b["rate"]}
    if kind == "fbank":
        d["name"] = "fbank"
        d["analytic"] = bool(b.get("analytic", False))
        return d
    d["scaling_function"] = alias_scale(b["scale"])
    if kind == "tri":
        d["name"] = "triangular"
        d["analytic"] = bool(b.get("analytic", False))
    elif kind == "gabor":
        d["name"] = "gabor"
        d["erb"] = bool(b.get("erb", False))
    else:
        d["alias"] = "gammatone"  # 'alias' takes precedence over 'name'
        d["order"] = b.get("order", 4)
        d["max_centered"] = bool(b.get("max_centered", False))
        d["erb"] = bool(b.get("erb", False))
    return d


def alias_window(w):
    if w is None or w["name"] == "default":
        return None
    if w["name"] == "gamma":
        return {"name": "gamma", "order": w.get("order", 4), "peak": w.get("peak", 0.75)}
    return w["name"]


def alias_computer(cfg):
    """The JSON-able tree the command-line tools take, equivalent to configs.build(cfg)."""
    rate = cfg["bank"]["rate"]
    d = {"bank": alias_bank(cfg["bank"]), "frame_shift_ms": configs.ms_for(cfg["frame_shift"], rate),
         "include_energy": bool(cfg.get("include_energy", False)),
         "pad_to_nearest_power_of_two": bool(cfg.get("pad2", True)),
         "use_log": bool(cfg.get("use_log", True)), "use_power": bool(cfg.get("use_power", False))}
    if cfg.get("frame_style"):
        d["frame_style"] = cfg["frame_style"]
    w = alias_window(cfg.get("window"))
    if w is not None:
        d["window_function"] = w
    if cfg["computer"] == "stft":
        d["name"] = "stft"
        if cfg.get("frame_length") is not None:
            d["frame_length_ms"] = configs.ms_for(cfg["frame_length"], rate)
        d["kaldi_shift"] = bool(cfg.get("kaldi_shift", False))
    else:
        d["name"] = "si"
    return d


def sha(b):
    return hashlib.sha1(b).hexdigest()[:16]


def read_dir(d):
    """{file name: bytes} of a flat directory."""
    out = {}
    if not os.path.isdir(d):
        return out
    for n in sorted(os.listdir(d)):
        p = os.path.join(d, n)
        if os.path.isfile(p):
            with open(p, "rb") as f:
                out[n] = f.read()
    return out


def stat_dir(d):
    out = {}
    if not os.path.isdir(d):
        return out
    for n in sorted(os.listdir(d)):
        p = os.path.join(d, n)
        if os.path.isfile(p):
            st = os.stat(p)
            out[n] = (st.st_ino, st.st_mtime_ns, st.st_size)
    return out


def manifest_ids(path):
    """(complete lines, trailing partial line or None)"""
    if not os.path.exists(path):
        return [], None
    with open(path, "rb") as f:
        raw = f.read()
    if not raw:
        return [], None
    parts = raw.split(b"\n")
    tail = parts[-1]
    lines = [p.decode("utf-8", "replace").strip() for p in parts[:-1]]
    return [ln for ln in lines if ln], (tail.decode("utf-8", "replace") if tail else None)


def torch_portable(cfg, comp):
    """False for degenerate configurations the PyTorch STFT module rejects by design: a filter without a single
    non-zero DFT bin at this DFT size (its constructor raises 'filter i is empty')."""
    if cfg["computer"] != "stft":
        return True
    L = int(comp.frame_length)
    D = int(2 ** np.ceil(np.log2(L))) if cfg.get("pad2", True) else L
    for i in range(comp.bank.num_filts):
        if len(comp.bank.get_truncated_response(i, D)[1]) == 0:
            return False
    return True
