"""Simulated worker pool standing in for torch.utils.data.DataLoader (DESIGN.md appendix B).

Reproduces exactly the facts of the real loader that C10 depends on: every worker owns a
private copy of the dataset and private global RNG states initialised from base_seed +
worker_id; item i is computed by worker i mod W, each worker in increasing order; at most 2 W
items are outstanding; *which* worker advances next is decided by the scenario's schedule;
results reach the consumer strictly in index order, collated by the real default_collate."""
import copy
import random

import numpy as np
import torch
import torch.utils.data


class FakeLoader(object):
    schedule = []
    tracer = None

    def __init__(self, dataset, num_workers=0, **kw):
        self.dataset = dataset
        self.W = int(num_workers)
        self.kw = kw
        # the two batching modes of the real loader that keep one item per step
        self.auto_collate = kw.get("batch_size", 1) is not None
        self.collate = kw.get("collate_fn") or torch.utils.data.default_collate

    def _emit(self, item):
        if self.auto_collate:
            return self.collate([item])
        return torch.utils.data._utils.collate.default_convert(item)

    def __len__(self):
        return len(self.dataset)

    def __iter__(self):
        n = len(self.dataset)
        W = self.W
        if W <= 0:
            for i in range(n):
                yield self._emit(self.dataset[i])
            return
        # drawn from the main process's generator, as the real loader does when iteration starts
        base_seed = int(torch.empty((), dtype=torch.int64).random_().item())
        main_state = (torch.get_rng_state(), np.random.get_state(), random.getstate())
        workers = []
        for w in range(W):
            torch.manual_seed(base_seed + w)
            np.random.seed((base_seed + w) % (2 ** 32))
            random.seed(base_seed + w)
            workers.append({
                "ds": copy.deepcopy(self.dataset),
                "next": w,  # next index this worker will compute
                "rng": (torch.get_rng_state(), np.random.get_state(), random.getstate()),
            })
        _restore(main_state)
        done = {}
        emit = 0
        sched = list(self.schedule) or [0]
        t = 0
        while emit < n:
            if emit in done:
                item = done.pop(emit)
                emit += 1
                yield item
                continue
            # workers that still have work and room in the prefetch window
            elig = [w for w in range(W) if workers[w]["next"] < n and workers[w]["next"] < emit + 2 * W]
            if not elig:
                raise RuntimeError("simulated pool stalled")
            pick = sched[t % len(sched)] % W
            t += 1
            while pick not in elig:
                pick = (pick + 1) % W
            wk = workers[pick]
            i = wk["next"]
            main_state = (torch.get_rng_state(), np.random.get_state(), random.getstate())
            _restore(wk["rng"])
            if self.tracer is not None:
                self.tracer.log("E", "worker", pick, self.tracer.count)
            try:
                item = self._emit(wk["ds"][i])
            finally:
                wk["rng"] = (torch.get_rng_state(), np.random.get_state(), random.getstate())
                _restore(main_state)
            done[i] = item
            wk["next"] = i + W


def _restore(st):
    torch.set_rng_state(st[0])
    np.random.set_state(st[1])
    random.setstate(st[2])


_SUPPORTED = {"batch_size", "collate_fn", "shuffle", "drop_last", "pin_memory", "persistent_workers", "prefetch_factor"}


def install(schedule, tracer):
    """Replace torch.utils.data.DataLoader by a factory: the simulated pool for the call patterns it models (one item
    per step, in order), the genuine loader for anything else (so that an implementation using other features of the
    loader is never judged through a stub that does not model them)."""
    FakeLoader.schedule = [int(x) for x in schedule]
    FakeLoader.tracer = tracer
    real = torch.utils.data.DataLoader

    def loader(dataset, *args, **kw):
        ok = (not args and set(kw) <= (_SUPPORTED | {"num_workers"}) and kw.get("batch_size", 1) in (1, None)
              and not kw.get("shuffle") and kw.get("sampler") is None)
        if not ok:
            if tracer is not None:
                tracer.log("E", "real_loader_fallback", "-", tracer.count)
            return real(dataset, *args, **kw)
        return FakeLoader(dataset, **kw)

    torch.utils.data.DataLoader = loader
