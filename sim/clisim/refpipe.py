"""Reference pipeline for C09, assembled from explicitly constructed library objects (no alias
factory, no command-line code): channel pick -> pre-processors -> compute_full (or the raw
column) -> post-processors -> float32."""
import warnings

import numpy as np

from sim.streamsim import configs

from pydrobert.speech import post as _post, pre as _pre


def make_pre(p):
    if p["name"] == "preemphasize":
        return _pre.Preemphasize(p.get("coeff", 0.97))
    if p["name"] == "dither":
        return _pre.Dither(p.get("coeff", 1.0))
    raise ValueError(p["name"])


def make_post(p):
    n = p["name"]
    if n == "deltas":
        kw = {k: v for k, v in p.items() if k != "name"}
        return _post.Deltas(**kw)
    if n == "stack":
        kw = {k: v for k, v in p.items() if k != "name"}
        return _post.Stack(**kw)
    if n == "standardize":
        return _post.Standardize()
    if n == "standardize_explicit":
        return _Explicit(p["mean"], p["std"], p.get("norm_var", True))
    raise ValueError(n)


class _Explicit(object):
    """(x - mean) / std with given per-coefficient statistics, written out (the reference for statistics files that the
    harness itself generated: independent of the library's loader and of Standardize)."""

    def __init__(self, mean, std, norm_var):
        self.mean = np.asarray(mean, dtype=np.float64)
        self.std = np.asarray(std, dtype=np.float64)
        self.norm_var = norm_var

    def apply(self, feats):
        y = np.asarray(feats, dtype=np.float64) - self.mean[None, :]
        if self.norm_var:
            y = y / self.std[None, :]
        return y


def reference(x, cfg, pre, post, channel, want_signal=False):
    """x: (C, S) float64. Returns the float32 feature matrix the tools should store."""
    if x.shape[0] > 1 or channel not in (-1, None):
        sig = x[0 if channel in (-1, None) else channel]
    else:
        sig = x[0]
    sig = np.array(sig, dtype=np.float64)
    with warnings.catch_warnings():
        warnings.simplefilter("ignore")
        for p in pre:
            sig = make_pre(p).apply(sig)
        if cfg is None:
            feats = sig[:, None]
        else:
            feats = configs.build(cfg).compute_full(sig)
        for p in post:
            feats = make_post(p).apply(feats)
    if want_signal:
        return np.asarray(feats).astype(np.float32), sig
    return np.asarray(feats).astype(np.float32)


def frame_amplitude(sig, nframes, L, S):
    """max |sample| in a neighbourhood that certainly contains frame k (and whatever is reflected into it)."""
    out = np.zeros(nframes)
    a = np.abs(np.asarray(sig, dtype=np.float64))
    for k in range(nframes):
        lo, hi = max(0, k * S - L), min(len(a), k * S + L + 1)
        out[k] = a[lo:hi].max() if hi > lo else 0.0
    return out


SINGLE = 2e-7  # about 3 x float32 epsilon. The PyTorch port keeps its window in float32 and its filters in complex64, which
#                moves a LINEAR coefficient of frame k by up to ~eps32 x (largest sample near the frame) [x that amplitude
#                again for power spectra], whatever the size of the coefficient. Measured on the unchanged tree: 9e-8 x
#                amplitude at most; a coefficient that is tiny through cancellation showed 1.2e-3 relative error once in
#                40 000 thorough runs (the false alarm this replaces).


def linear_atol(amp, use_power):
    return SINGLE * (amp * amp if use_power else amp)


def close_linear(a, b, amp, use_power):
    """Log-domain features without post-processing, compared as exp() of them: |a-b| <= 1e-4 max(a,b) + atol_k, where
    atol_k is what single precision of the PyTorch port allows in frame k - an ABSOLUTE error proportional to the
    amplitude of the samples in that frame (zero for digital silence), not to the coefficient itself."""
    a = np.asarray(a)
    b = np.asarray(b)
    if a.shape != b.shape:
        return "shape %s vs reference %s" % (a.shape, b.shape)
    if a.size == 0:
        return None
    with np.errstate(over="ignore"):
        al, bl = np.exp(a.astype(np.float64)), np.exp(b.astype(np.float64))
    if not (np.isfinite(al).all() and np.isfinite(bl).all()):
        return close(a, b, True)
    tol = 1e-4 * np.maximum(al, bl) + linear_atol(amp, use_power)[:, None]
    err = np.abs(al - bl)
    if (err > tol).any():
        i = np.unravel_index(int(np.argmax(err - tol)), err.shape)
        return "entry %s: stored %r reference %r (linear %r vs %r; %d of %d entries differ)" % (
            tuple(int(q) for q in i), float(a[i]), float(b[i]), float(al[i]), float(bl[i]), int((err > tol).sum()), err.size)
    return None


def log_slack(base_ref, amp, use_power):
    """Absolute slack in the log domain that the single-precision error of frame k allows for its smallest coefficient
    (used when post-processors combine log features linearly); the maximum over frames."""
    if base_ref.size == 0:
        return 0.0
    with np.errstate(over="ignore"):
        lin = np.exp(base_ref.astype(np.float64))
    if not np.isfinite(lin).all():
        return 0.0
    return float(np.max(linear_atol(amp, use_power) / np.maximum(lin.min(axis=1), 1e-300)))


def close(a, b, use_log, slack=0.0):
    """None if a (stored) equals b (reference) to float32 precision, else a description."""
    a = np.asarray(a)
    b = np.asarray(b)
    if a.shape != b.shape:
        return "shape %s vs reference %s" % (a.shape, b.shape)
    if a.size == 0:
        return None
    a64, b64 = a.astype(np.float64), b.astype(np.float64)
    fin = np.isfinite(b64)
    if not np.array_equal(np.isfinite(a64), fin):
        return "non-finite pattern differs"
    a64, b64 = np.where(fin, a64, 0.0), np.where(fin, b64, 0.0)
    scale = float(np.max(np.abs(b64))) if b64.size else 0.0
    tol = 1e-4 * np.maximum(np.abs(a64), np.abs(b64)) + 1e-5 * scale + (2e-4 if use_log else 0.0) + slack
    err = np.abs(a64 - b64)
    if (err > tol).any():
        i = np.unravel_index(int(np.argmax(err - tol)), err.shape)
        return "entry %s: stored %r reference %r (%d of %d entries differ)" % (
            tuple(int(q) for q in i), float(a[i]), float(b[i]), int((err > tol).sum()), err.size)
    return None
