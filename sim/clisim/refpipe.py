"""Reference pipeline for C09, assembled from explicitly constructed library objects (no alias
factory, no command-line code): channel pick -> pre-processors -> compute_full (or the raw
column) -> post-processors -> float32."""
import warnings

import numpy as np

from sim.streamsim import configs

from pydrobert.speech import post as _post, pre as _pre


def make_pre(p):
    if p["name"] == "preemphasize":
        return _pre.Preemphasize(p.get("coeff", 0.97))
    if p["name"] == "dither":
        return _pre.Dither(p.get("coeff", 1.0))
    raise ValueError(p["name"])


def make_post(p):
    n = p["name"]
    if n == "deltas":
        kw = {k: v for k, v in p.items() if k != "name"}
        return _post.Deltas(**kw)
    if n == "stack":
        kw = {k: v for k, v in p.items() if k != "name"}
        return _post.Stack(**kw)
    if n == "standardize":
        return _post.Standardize()
    raise ValueError(n)


def reference(x, cfg, pre, post, channel):
    """x: (C, S) float64. Returns the float32 feature matrix the tools should store."""
    if x.shape[0] > 1 or channel not in (-1, None):
        sig = x[0 if channel in (-1, None) else channel]
    else:
        sig = x[0]
    sig = np.array(sig, dtype=np.float64)
    with warnings.catch_warnings():
        warnings.simplefilter("ignore")
        for p in pre:
            sig = make_pre(p).apply(sig)
        if cfg is None:
            feats = sig[:, None]
        else:
            feats = configs.build(cfg).compute_full(sig)
        for p in post:
            feats = make_post(p).apply(feats)
    return np.asarray(feats).astype(np.float32)


def close(a, b, use_log):
    """None if a (stored) equals b (reference) to float32 precision, else a description."""
    a = np.asarray(a)
    b = np.asarray(b)
    if a.shape != b.shape:
        return "shape %s vs reference %s" % (a.shape, b.shape)
    if a.size == 0:
        return None
    a64, b64 = a.astype(np.float64), b.astype(np.float64)
    fin = np.isfinite(b64)
    if not np.array_equal(np.isfinite(a64), fin):
        return "non-finite pattern differs"
    a64, b64 = np.where(fin, a64, 0.0), np.where(fin, b64, 0.0)
    scale = float(np.max(np.abs(b64))) if b64.size else 0.0
    tol = 1e-4 * np.maximum(np.abs(a64), np.abs(b64)) + 1e-5 * scale + (2e-4 if use_log else 0.0)
    err = np.abs(a64 - b64)
    if (err > tol).any():
        i = np.unravel_index(int(np.argmax(err - tol)), err.shape)
        return "entry %s: stored %r reference %r (%d of %d entries differ)" % (
            tuple(int(q) for q in i), float(a[i]), float(b[i]), int((err > tol).sum()), err.size)
    return None
