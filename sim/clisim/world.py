"""The world of a command-line run: a scratch directory holding a small corpus, the map / scp
file, the configuration in one of three syntaxes, and the command line."""
import json
import os
import wave

import numpy as np

from sim.core.trace import np_rng

CONTAINERS = ("npy", "pt", "wav", "npz", "hdf5")


def make_signal(u):
    """Integer-valued samples in the int16 range (so every container stores them exactly)."""
    g = np_rng(u["seed"])
    n, ch = int(u["n"]), int(u.get("channels", 1))
    x = g.integers(-2000, 2001, size=(ch, n)).astype(np.float64)
    if n:
        x += np.round(1500 * np.sin(np.arange(n) * 0.05 * (1 + (u["seed"] % 7)))[None, :])
    x = np.clip(x, -32768, 32767)
    sil = u.get("silence")
    if sil and n:
        a = int(sil[0] * n)
        x[:, a : a + max(1, int(sil[1] * n))] = 0.0  # a muted stretch: exact digital silence
    if u.get("nan_at") is not None and n:
        x[:, min(n - 1, int(u["nan_at"] * n))] = np.nan  # a drop-out marker in a float recording
    return x  # channels first (C, S)


def gen_corpus(rng, nutt, allow_multi=False, containers=CONTAINERS, short_ok=True, hash_ids=False, nan_ok=False):
    ids = []
    shapes = rng.choice(("plain", "plain", "prefix", "odd"))
    for i in range(nutt):
        if shapes == "plain":
            ids.append("utt%02d" % i)
        elif shapes == "prefix":
            ids.append(None)  # filled below: ids that are prefixes of one another, in seeded order
        else:
            ids.append(["a", "a1", "a-1", "B_2", "a.b", "utt", "utt1", "z9"][i % 8] + ("" if i < 8 else str(i)))
            if hash_ids and i % 3 == 1:
                ids[-1] = "#" + ids[-1]  # an id may start with any non-blank character
    if shapes == "prefix":
        pool = ["u", "ua", "uab", "uabc", "utt1", "utt10", "utt100", "utt11", "b", "b-1"]
        ids = rng.sample(pool, nutt)
    corpus = []
    multi = allow_multi and rng.random() < 0.4
    for i, uid in enumerate(ids):
        r = rng.random()
        if short_ok and r < 0.12:
            n = rng.choice((0, 1, 3, 12))
        elif r < 0.3:
            n = rng.randrange(40, 120)
        else:
            n = rng.randrange(120, 900)
        cs = [c for c in containers if c != "wav"] if (multi and len(containers) > 1) else containers
        u = {"id": uid, "container": rng.choice(cs), "n": n, "seed": rng.randrange(1 << 30),
             "channels": rng.choice((2, 3)) if multi else 1,
             "store_dtype": rng.choice(("float64", "float32", "int16"))}
        if rng.random() < 0.15 and n > 50:
            u["silence"] = [rng.choice((0.0, 0.3, 0.6)), rng.choice((0.2, 0.4, 1.0))]
        if nan_ok and rng.random() < 0.04 and n > 50 and u["container"] in ("npy", "pt", "npz", "hdf5") \
                and u["store_dtype"] != "int16":
            u["nan_at"] = rng.choice((0.1, 0.5, 0.95))
        if u["container"] == "wav":
            u["channels"] = 1  # read_signal gives wav as time x channels; the torch tool wants channels first
        corpus.append(u)
    return corpus


def write_corpus(corpus, d):
    """Write every utterance; returns {id: path}."""
    paths = {}
    npz_path = os.path.join(d, "all.npz")
    h5_path = os.path.join(d, "all.hdf5")
    npz_ent = {}
    h5_ent = {}
    for u in corpus:
        x = make_signal(u)
        arr = x if u.get("channels", 1) > 1 else x[0]
        arr = arr.astype(u.get("store_dtype", "float64"))
        c = u["container"]
        if c == "npy":
            p = os.path.join(d, "sig_%s.npy" % u["id"])
            np.save(p, arr)
        elif c == "pt":
            import torch

            p = os.path.join(d, "sig_%s.pt" % u["id"])
            torch.save(torch.from_numpy(np.ascontiguousarray(arr)), p)
        elif c == "wav":
            p = os.path.join(d, "sig_%s.wav" % u["id"])
            w = wave.open(p, "wb")
            w.setnchannels(1)
            w.setsampwidth(2)
            w.setframerate(int(u.get("rate", 8000)))
            w.writeframes(x[0].astype("<i2").tobytes())
            w.close()
        elif c == "npz":
            p = npz_path
            npz_ent[u["id"]] = arr
        elif c == "hdf5":
            p = h5_path
            h5_ent[u["id"]] = arr
        else:
            raise ValueError(c)
        paths[u["id"]] = p
    if npz_ent:
        np.savez(npz_path, **npz_ent)
    if h5_ent:
        import h5py

        with h5py.File(h5_path, "w") as f:
            for k, v in h5_ent.items():
                f.create_dataset(k, data=v)
    return paths


def write_map(corpus, paths, d, name="map.txt"):
    p = os.path.join(d, name)
    with open(p, "w") as f:
        for u in corpus:
            f.write("%s %s\n" % (u["id"], paths[u["id"]]))
    return p


def to_yaml(obj, indent=0):
    """Minimal YAML block emitter for the dict/list/scalar trees we generate."""
    sp = "  " * indent
    if isinstance(obj, dict):
        if not obj:
            return sp + "{}\n"
        out = ""
        for k, v in obj.items():
            if isinstance(v, (dict, list)) and v:
                out += "%s%s:\n%s" % (sp, k, to_yaml(v, indent + 1))
            else:
                out += "%s%s: %s\n" % (sp, k, _yscalar(v))
        return out
    if isinstance(obj, list):
        if not obj:
            return sp + "[]\n"
        out = ""
        for v in obj:
            if isinstance(v, dict) and v:
                body = to_yaml(v, indent + 1)
                out += sp + "- " + body.lstrip()
            elif isinstance(v, list) and v:
                out += sp + "-\n" + to_yaml(v, indent + 1)
            else:
                out += "%s- %s\n" % (sp, _yscalar(v))
        return out
    return sp + _yscalar(obj) + "\n"


def _yscalar(v):
    if v is None:
        return "null"
    if v is True:
        return "true"
    if v is False:
        return "false"
    if isinstance(v, (dict, list)):
        return "{}" if isinstance(v, dict) else "[]"
    if isinstance(v, str):
        return json.dumps(v)
    return repr(v)


def config_arg(obj, syntax, d, stem):
    """How the configuration reaches the tool: inline JSON, a JSON file or a YAML file."""
    if syntax == "inline":
        return json.dumps(obj)
    if syntax == "json":
        p = os.path.join(d, stem + ".json")
        with open(p, "w") as f:
            json.dump(obj, f)
        return p
    p = os.path.join(d, stem + ".yaml")
    with open(p, "w") as f:
        f.write(to_yaml(obj))
    return p
