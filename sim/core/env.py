"""Process environment: pinning of ambient nondeterminism and import of the code under test.

Nothing in here draws random numbers or reads a clock.
"""
import os
import sys

VERIF_DIR = os.path.dirname(os.path.dirname(os.path.dirname(os.path.abspath(__file__))))

_PIN = {
    "OMP_NUM_THREADS": "1",
    "OPENBLAS_NUM_THREADS": "1",
    "MKL_NUM_THREADS": "1",
    "NUMEXPR_NUM_THREADS": "1",
    "VERIF_PINNED": "1",
}


def pin_and_reexec(module, argv):
    """Re-exec once so PYTHONHASHSEED and BLAS thread counts are fixed before NumPy loads."""
    if os.environ.get("VERIF_PINNED") == "1":
        return
    env = dict(os.environ)
    env.update(_PIN)
    if "VERIF_HASHSEED" in env:
        env["PYTHONHASHSEED"] = env["VERIF_HASHSEED"]
    else:
        env["PYTHONHASHSEED"] = "0"
    sys.stdout.flush()
    sys.stderr.flush()
    os.execve(sys.executable, [sys.executable, "-m", module] + list(argv), env)


def repo_root():
    return os.path.abspath(os.environ.get("VERIF_REPO", "/repo"))


def repo_src():
    return os.path.join(repo_root(), "src")


_setup_done = False


def setup_imports():
    """Make `pydrobert.speech` resolve to the working tree under test (never a cached copy)."""
    global _setup_done
    if _setup_done:
        return
    src = repo_src()
    if not os.path.isdir(os.path.join(src, "pydrobert", "speech")):
        raise RuntimeError("no pydrobert/speech under %s" % src)
    sys.path.insert(0, src)
    sys.dont_write_bytecode = True
    import pydrobert.speech as ps  # noqa

    got = os.path.dirname(os.path.abspath(ps.__file__))
    want = os.path.join(src, "pydrobert", "speech")
    if os.path.realpath(got) != os.path.realpath(want):
        raise RuntimeError("pydrobert.speech imported from %s, wanted %s" % (got, want))
    _setup_done = True


def scratch_base():
    """Directory under which per-run scratch directories are made (outside /repo and /verif)."""
    base = os.environ.get("VERIF_SCRATCH")
    if not base:
        import tempfile

        base = tempfile.gettempdir()
    os.makedirs(base, exist_ok=True)
    return base


def pin_runtime():
    """Pin in-process ambient state at the start of every run."""
    import warnings

    import numpy as np

    np.random.seed(12345)
    warnings.resetwarnings()
    # engines that judge warnings (C12) record them locally with catch_warnings
    warnings.simplefilter("ignore")
    if "torch" in sys.modules:
        import torch

        torch.manual_seed(12345)
