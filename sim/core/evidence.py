"""Evidence writer: /verif/evidence/<id>.json, rewritten by every check run from measured counts."""
import json
import os

from .env import VERIF_DIR


def write(engine, tier, seed, rep, wall, selftest, nviol, known_hits, reported, harness_errors,
          zero_probes, zero_faults):
    samples = []
    for s in rep.samples[:3]:
        samples.append({"run_index": s["k"], "signature": s["signature"], "scenario": _trim(s["scenario"])})
    if not samples:
        samples = [{"note": "no run completed"}]
    cov = {
        "evaluations": rep.n,
        "distinct_nontrivial": len(rep.sigs),
        "rule": engine.RULE,
        "samples": samples,
        "exhaustive": bool(getattr(engine, "EXHAUSTIVE", {}).get(tier, False)),
        "nontrivial_runs": rep.nontrivial,
        "runs_requested": rep.requested,
        "budget_exhausted": rep.budget_exhausted,
        "runs_per_hour": int(rep.n / max(rep.wall, 1e-9) * 3600),
        "seeds": {"VERIF_SEED": seed, "run_indices": [0, max(0, rep.n - 1)],
                  "derivation": "sha256('%s:<VERIF_SEED>:<index>')[:16]" % engine.PROPERTY},
        "sim_events": rep.events,
        "sim_time_note": "simulated time is an event count (operations delivered / traced line events); "
                         "the code under test has no clock",
        "faults_fired": dict(sorted(rep.faults.items())),
        "probes": dict(sorted(rep.probes.items())),
        "probes_never_reached": zero_probes,
        "fault_kinds_never_fired": zero_faults,
        "components": engine.COMPONENTS,
        "determinism_selftest": selftest,
        "known_findings_hit": known_hits,
        "violations_reported": reported,
        "harness_errors": harness_errors,
        "workers": rep.workers,
    }
    extra = getattr(engine, "evidence_extra", None)
    if extra:
        try:
            cov.update(extra(tier))
        except Exception as e:  # never let evidence decoration break a verdict
            cov["evidence_extra_error"] = repr(e)
    doc = {
        "property_id": engine.PROPERTY,
        "tier": tier,
        "seed": int(seed),
        "level": engine.LEVEL,
        "coverage": cov,
        "assumptions": list(engine.ASSUMPTIONS),
        "wall_s": round(float(wall), 3),
        "violations": int(nviol),
    }
    d = os.path.join(VERIF_DIR, "evidence")
    os.makedirs(d, exist_ok=True)
    path = os.path.join(d, engine.PROPERTY + ".json")
    tmp = path + ".tmp"
    with open(tmp, "w") as f:
        json.dump(doc, f, indent=1, sort_keys=True, default=str)
        f.write("\n")
    os.replace(tmp, path)
    return path


def _trim(obj, depth=0):
    """Keep samples readable: long literal lists are abbreviated."""
    if isinstance(obj, dict):
        return {k: _trim(v, depth + 1) for k, v in obj.items()}
    if isinstance(obj, (list, tuple)):
        if len(obj) > 24:
            return [_trim(x, depth + 1) for x in obj[:20]] + ["... (%d more)" % (len(obj) - 20)]
        return [_trim(x, depth + 1) for x in obj]
    if isinstance(obj, str) and len(obj) > 300:
        return obj[:300] + "...(%d chars)" % len(obj)
    return obj
