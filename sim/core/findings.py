"""Known findings: /verif/known_findings.json, committed, never written at run time.

Entry: {"property": "C12", "id": "...", "status": "finding" | "fixed", "match": {fact: value, ...},
        "what": "...", "commit": "..."}.
A violation is a KNOWN finding iff some *open* ("finding") entry of the same property has every
match key equal to the corresponding fact of the violation. "fixed" entries suppress nothing.
"""
import json
import os

from .env import VERIF_DIR

PATH = os.path.join(VERIF_DIR, "known_findings.json")


def load():
    if not os.path.exists(PATH):
        return []
    with open(PATH) as f:
        data = json.load(f)
    return data.get("findings", [])


def match(prop, facts, entries=None):
    if entries is None:
        entries = load()
    for e in entries:
        if e.get("property") != prop or e.get("status") != "finding":
            continue
        m = e.get("match") or {}
        if m and all(facts.get(k) == v for k, v in m.items()):
            return e
    return None
