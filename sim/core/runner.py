"""Batch runner: seeded scenarios executed across forked workers, results assembled in index
order (so the report is independent of completion order and worker count)."""
import concurrent.futures as cf
import faulthandler
import hashlib
import importlib
import multiprocessing
import os
import sys
import time
import traceback

from . import env
from .trace import rng_for, run_seed

ENGINES = {
    "C01": "sim.streamsim.c01",
    "C04": "sim.streamsim.c04",
    "C09": "sim.clisim.c09",
    "C10": "sim.clisim.c10",
    "C11": "sim.iosim.c11",
    "C12": "sim.iosim.c12",
    "C13": "sim.iosim.c13",
    "C16": "sim.statsim.c16",
    "C17": "sim.statsim.c17",
}


def load_engine(prop):
    env.setup_imports()
    return importlib.import_module(ENGINES[prop])


def run_one(engine, batch_seed, k, tier, keep_trace=False):
    """Generate scenario k of the batch and execute it. Pure function of (code, seed, k, tier)."""
    rng = rng_for(engine.PROPERTY, batch_seed, k)
    scn = engine.generate(rng, tier, k)
    res = execute_scenario(engine, scn, keep_trace)
    return scn, res


class RunTimeout(BaseException):
    pass


def _on_alarm(signum, frame):
    raise RunTimeout()


def execute_scenario(engine, scn, keep_trace=False):
    """Execute one scenario under a wall-clock watchdog. A run that exceeds it is reported as a
    violation of class HANG (the code under test has no business looping for a minute on inputs that
    normally take milliseconds); the limit is generous so that load cannot trigger it."""
    import signal

    from .trace import Result

    env.pin_runtime()
    limit = int(os.environ.get("VERIF_RUN_TIMEOUT", getattr(engine, "RUN_TIMEOUT_S", 120)))
    old = signal.signal(signal.SIGALRM, _on_alarm)
    signal.alarm(limit)
    try:
        return engine.execute(scn, keep_trace=keep_trace)
    except RunTimeout:
        res = Result()
        res.violate("HANG", "run did not finish within %d s of wall time" % limit)
        res.digest = "hang"
        res.signature = "hang"
        res.nontrivial = True
        return res
    finally:
        signal.alarm(0)
        signal.signal(signal.SIGALRM, old)


def _sig_hash(s):
    return hashlib.blake2b(s.encode(), digest_size=8).hexdigest()


def _work(prop, batch_seed, a, b, tier, per_task_timeout, nsamples):
    engine = load_engine(prop)
    faulthandler.dump_traceback_later(per_task_timeout, exit=True)
    limit = getattr(engine, "WORKER_RLIMIT_AS", None)
    if limit:
        # engines whose workers only need NumPy cap their address space: a decoder that asks for an absurd buffer then
        # gets MemoryError (observable, judged) instead of the kernel killing the worker (a harness error)
        import resource

        try:
            soft, hard = resource.getrlimit(resource.RLIMIT_AS)
            resource.setrlimit(resource.RLIMIT_AS, (int(limit), hard))
        except (ValueError, OSError):
            pass
    out = {
        "a": a,
        "b": b,
        "n": 0,
        "events": 0,
        "faults": {},
        "probes": {},
        "sigs": set(),
        "nontrivial": 0,
        "violations": [],
        "samples": [],
        "digests": {},
        "errors": [],
    }
    try:
        for k in range(a, b):
            try:
                scn, res = run_one(engine, batch_seed, k, tier)
            except Exception:
                out["errors"].append((k, traceback.format_exc()))
                continue
            out["n"] += 1
            out["events"] += res.events
            for kk, v in res.faults.items():
                out["faults"][kk] = out["faults"].get(kk, 0) + v
            for kk, v in res.probes.items():
                out["probes"][kk] = out["probes"].get(kk, 0) + v
            if res.nontrivial:
                out["nontrivial"] += 1
                out["sigs"].add(_sig_hash(res.signature))
            out["digests"][k] = res.digest
            if res.verdict == "VIOLATION":
                out["violations"].append(
                    {"k": k, "scenario": scn, "vclass": res.vclass, "detail": res.detail,
                     "facts": res.facts, "digest": res.digest}
                )
            if k < nsamples:
                out["samples"].append({"k": k, "scenario": scn, "signature": res.signature})
    finally:
        faulthandler.cancel_dump_traceback_later()
    return out


class BatchReport(object):
    def __init__(self):
        self.n = 0
        self.events = 0
        self.faults = {}
        self.probes = {}
        self.sigs = set()
        self.nontrivial = 0
        self.violations = []
        self.samples = []
        self.digests = {}
        self.errors = []
        self.wall = 0.0
        self.requested = 0
        self.budget_exhausted = False
        self.workers = 0


def run_batch(prop, batch_seed, tier, nruns, budget_s, workers=None, chunk=None,
              per_task_timeout=600, nsamples=3, progress=None):
    engine = load_engine(prop)  # import in the parent so forked workers inherit warm modules
    if hasattr(engine, "warmup"):
        engine.warmup(tier)
    if workers is None:
        workers = min(16, os.cpu_count() or 1)
    workers = max(1, int(os.environ.get("VERIF_WORKERS", workers)))
    if chunk is None:
        chunk = max(1, min(64, nruns // (workers * 8) or 1))
    rep = BatchReport()
    rep.requested = nruns
    rep.workers = workers
    t0 = time.monotonic()
    ranges = [(a, min(a + chunk, nruns)) for a in range(0, nruns, chunk)]
    results = {}
    ctx = multiprocessing.get_context("fork")
    sys.stdout.flush()
    sys.stderr.flush()
    with cf.ProcessPoolExecutor(max_workers=workers, mp_context=ctx) as ex:
        pending = {}
        it = iter(ranges)
        exhausted = False

        def submit_more():
            nonlocal exhausted
            while not exhausted and len(pending) < 2 * workers:
                if time.monotonic() - t0 > budget_s:
                    exhausted = True
                    rep.budget_exhausted = True
                    break
                try:
                    a, b = next(it)
                except StopIteration:
                    exhausted = True
                    break
                fut = ex.submit(_work, prop, batch_seed, a, b, tier, per_task_timeout, nsamples)
                pending[fut] = (a, b)

        submit_more()
        while pending:
            done, _ = cf.wait(list(pending), return_when=cf.FIRST_COMPLETED)
            for fut in done:
                a, b = pending.pop(fut)
                results[a] = fut.result()  # BrokenProcessPool propagates: harness error
            submit_more()
    for a in sorted(results):
        r = results[a]
        rep.n += r["n"]
        rep.events += r["events"]
        for kk, v in r["faults"].items():
            rep.faults[kk] = rep.faults.get(kk, 0) + v
        for kk, v in r["probes"].items():
            rep.probes[kk] = rep.probes.get(kk, 0) + v
        rep.sigs |= r["sigs"]
        rep.nontrivial += r["nontrivial"]
        rep.violations.extend(r["violations"])
        rep.samples.extend(r["samples"])
        rep.digests.update(r["digests"])
        rep.errors.extend(r["errors"])
    rep.wall = time.monotonic() - t0
    return rep


def execute_isolated(engine, scn, history=None):
    """Execute a scenario in a forked child of this (clean) process and return its Result. Used while minimising: the
    code under test may keep module-level state, so re-executions must not see each other's leftovers (and a replay in
    a fresh interpreter must see what the minimiser saw). `history` is a list of scenarios executed (and not judged)
    in the same child first: what the process had done before."""
    import pickle

    from .trace import Result

    rfd, wfd = os.pipe()
    sys.stdout.flush()
    sys.stderr.flush()
    pid = os.fork()
    if pid == 0:
        code = 1
        try:
            os.close(rfd)
            for h in history or []:
                try:
                    execute_scenario(engine, h)
                except Exception:
                    pass
            res = execute_scenario(engine, scn)
            d = res.to_dict()
            with os.fdopen(wfd, "wb") as f:
                pickle.dump(d, f)
            code = 0
        except BaseException:  # noqa: B902
            code = 3
        finally:
            os._exit(code)
    os.close(wfd)
    with os.fdopen(rfd, "rb") as f:
        data = f.read()
    os.waitpid(pid, 0)
    res = Result()
    if not data:
        res.verdict = "ERROR"
        return res
    d = pickle.loads(data)
    for k in ("verdict", "vclass", "detail", "facts", "digest", "events", "faults", "probes", "signature", "nontrivial"):
        setattr(res, k, d[k])
    return res


def scenario_of(engine, batch_seed, k, tier):
    """Scenario k of a batch (generation only)."""
    return engine.generate(rng_for(engine.PROPERTY, batch_seed, k), tier, k)
