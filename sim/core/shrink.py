"""Generic minimisation helpers. A candidate is kept only when `test(candidate)` is true,
where `test` re-executes from scratch and demands the same property and violation class."""
import copy


class Budget(object):
    """Bounds minimisation by number of re-executions and by wall time (reporting must not take for ever)."""

    def __init__(self, n, seconds=90.0):
        import time

        self.left = n
        self._deadline = time.monotonic() + seconds

    def take(self):
        import time

        if time.monotonic() > self._deadline:
            self.left = 0
            return False
        self.left -= 1
        return self.left >= 0


def ddmin_list(items, test, budget):
    """Delta debugging over a list; `test(list)` -> bool. Returns a 1-minimal-ish list."""
    items = list(items)
    n = 2
    while len(items) >= 1 and budget.left > 0:
        chunk = max(1, len(items) // n)
        reduced = False
        i = 0
        while i < len(items):
            cand = items[:i] + items[i + chunk :]
            if not budget.take():
                return items
            if test(cand):
                items = cand
                n = max(n - 1, 2)
                reduced = True
            else:
                i += chunk
        if not reduced:
            if chunk == 1:
                break
            n = min(len(items), n * 2)
    return items


def shrink_int(value, lo, test, budget):
    """Smallest v in [lo, value] (by bisection then linear polish) with test(v) true; assumes test(value)."""
    best = value
    a, b = lo, value
    # try the floor first
    if best > lo and budget.take() and test(lo):
        return lo
    while b - a > 1 and budget.left > 0:
        mid = (a + b) // 2
        if not budget.take():
            break
        if test(mid):
            best = mid
            b = mid
        else:
            a = mid
    return best


def try_replace(scn, path, values, test, budget):
    """Try setting scn[path...] to each of `values` (simplest first); keep the first that still fails."""
    for v in values:
        cur = get_path(scn, path)
        if cur == v:
            return scn
        cand = copy.deepcopy(scn)
        set_path(cand, path, v)
        if not budget.take():
            return scn
        if test(cand):
            return cand
    return scn


def get_path(obj, path):
    for p in path:
        obj = obj[p]
    return obj


def set_path(obj, path, v):
    for p in path[:-1]:
        obj = obj[p]
    obj[path[-1]] = v
