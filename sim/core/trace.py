"""Seeds, traces and run results.

`run_seed(prop, batch_seed, k)` is the only place a run's PRNG comes from. A `Trace` is an
append-only event list whose SHA-256 is the run digest; it never draws from a PRNG or reads
a clock.
"""
import hashlib
import json
import random

import numpy as np


def run_seed(prop, batch_seed, k):
    h = hashlib.sha256(("%s:%d:%d" % (prop, int(batch_seed), int(k))).encode()).hexdigest()
    return int(h[:16], 16)


def rng_for(prop, batch_seed, k):
    return random.Random(run_seed(prop, batch_seed, k))


def np_rng(seed):
    return np.random.Generator(np.random.PCG64(int(seed) & ((1 << 63) - 1)))


def adigest(a):
    """Stable digest of an array / scalar / small python value."""
    if a is None:
        return "None"
    if isinstance(a, np.ndarray):
        b = np.ascontiguousarray(a).tobytes()
        return "nd%s|%s|%s" % (a.shape, a.dtype.str, hashlib.sha1(b).hexdigest()[:16])
    if isinstance(a, (bytes, bytearray, memoryview)):
        return "b%d|%s" % (len(a), hashlib.sha1(bytes(a)).hexdigest()[:16])
    if isinstance(a, float):
        return repr(a)
    if isinstance(a, (list, tuple)):
        return "[" + ",".join(adigest(x) for x in a) + "]"
    if isinstance(a, dict):
        return "{" + ",".join("%s:%s" % (k, adigest(a[k])) for k in sorted(a)) + "}"
    if isinstance(a, BaseException):
        return "exc:" + type(a).__name__
    return repr(a)


class Trace(object):
    def __init__(self, keep=False):
        self.n = 0
        self._h = hashlib.sha256()
        self.keep = keep
        self.events = []

    def log(self, op, *parts):
        line = "%d|%s|%s" % (self.n, op, "|".join(adigest(p) for p in parts))
        self._h.update(line.encode())
        self._h.update(b"\n")
        if self.keep:
            self.events.append(line)
        self.n += 1

    def digest(self):
        return "sha256:" + self._h.hexdigest()


class Result(object):
    """Outcome of executing one scenario."""

    __slots__ = (
        "verdict",
        "vclass",
        "detail",
        "facts",
        "digest",
        "events",
        "faults",
        "probes",
        "signature",
        "nontrivial",
        "trace",
    )

    def __init__(self):
        self.verdict = "OK"
        self.vclass = None
        self.detail = ""
        self.facts = {}
        self.digest = ""
        self.events = 0
        self.faults = {}
        self.probes = {}
        self.signature = ""
        self.nontrivial = False
        self.trace = None

    def violate(self, vclass, detail, **facts):
        # first violation wins: later checks of the same run are consequences
        if self.verdict != "VIOLATION":
            self.verdict = "VIOLATION"
            self.vclass = vclass
            self.detail = detail
            self.facts = dict(facts)
            self.facts["class"] = vclass

    def fault(self, kind, n=1):
        self.faults[kind] = self.faults.get(kind, 0) + n

    def probe(self, name, n=1):
        self.probes[name] = self.probes.get(name, 0) + n

    def to_dict(self):
        return {
            "verdict": self.verdict,
            "vclass": self.vclass,
            "detail": self.detail,
            "facts": self.facts,
            "digest": self.digest,
            "events": self.events,
            "faults": self.faults,
            "probes": self.probes,
            "signature": self.signature,
            "nontrivial": self.nontrivial,
        }


def canon(obj):
    """Canonical JSON text of a scenario (used for sizes and hashing)."""
    return json.dumps(obj, sort_keys=True, separators=(",", ":"))
