"""C11 - read_signal returns exactly what was stored, from a path or a stream; wds_read_signal
never raises.

Fault-free configuration ("rt"): every container is written with its own writer and read back
through every access path (file name with suffix inference, open binary file + force_as,
in-memory stream + force_as), with dtype / key / error-type variations.
Fault-injecting configuration ("wds"): a valid container image goes through a seeded sequence
of storage faults (truncate, bit flips, zero-fill, splice from another container, duplicate
block, empty, garbage, a header that promises an enormous payload) and is handed to
wds_read_signal under a right, wrong or unrecognised name. Each wds run executes in a forked
child with an alarm, so that a native crash or a hang inside a third-party decoder is observed
rather than killing the worker."""
import copy
import io
import json
import os
import shutil
import signal
import tempfile
import warnings

import numpy as np

from sim.core import env, shrink
from sim.core.trace import Result, Trace, adigest
from sim.iosim import containers as ct, faults as ft

from pydrobert.speech import util as _util

PROPERTY = "C11"
LEVEL = "exploration"
TIERS = {
    "quick": {"runs": 22000, "budget": 70, "selftest": 64, "shrink_budget": 200},
    "thorough": {"runs": 250000, "budget": 1500, "selftest": 1000, "shrink_budget": 600},
}
RULE = (
    "Half of the runs are fault-free round trips: one container (16/32-bit wav, 16-bit flac/aiff, npy, npz, pt, "
    "hdf5, raw binary, SPHERE) with seeded shape / dtype / channel count / entries, written with its own writer, "
    "read back via a seeded access path with seeded dtype= and key= and one of the three error-type probes. The "
    "other half are fault runs: one image x 24-40 cases, each = 1-3 stacked storage faults + a name with right / "
    "wrong / unrecognised suffix, passed to wds_read_signal inside a forked child. evaluations counts runs; "
    "sim_events counts individual decodes. Non-trivial = a fault actually changed the bytes, or a non-default "
    "access path / dtype / key was used. Distinct = distinct (mode, container, access, dtype request, key use, "
    "error probe) resp. (container, sorted fault kinds of the run, name classes)."
)
COMPONENTS = {
    "pydrobert.speech.util.read_signal / wds_read_signal / suffix inference": "real",
    "wave, soundfile(libsndfile), numpy.load, torch.load, h5py(HDF5), _sphere": "real (dependency)",
    "storage (faulted container images), writers": "stub (simulator) / container's own writer",
}
ASSUMPTIONS = [
    "raw binary (numpy.fromfile) needs a real file descriptor: an in-memory stream is not an access path for it",
    "raw binary carries no dtype/shape: it is read back with dtype= its stored dtype and compared flattened",
    "key= is exercised for npz and hdf5 (the containers that have entries); Kaldi tables/pipes are not exercised",
    "a decoder returning an array from damaged bytes is legal; only raising is judged for every decoder; hanging (a batch of <= 40 decodes, normally 0.2 s, taking > 30 s) or crashing the process is judged for the repository's own SPHERE decoder and only counted (probes dependency_hang / dependency_crash) for third-party decoders",
    "no address-space limit is imposed (RLIMIT_AS with torch loaded is unsafe); lying headers rely on the allocator "
    "refusing absurd sizes, which is what a deployment sees too",
    "sampling, not proof",
]
PROBES = [
    "rt_path_suffix", "rt_fileobj", "rt_fileobj_path_replaced", "rt_bytesio", "rt_zero_dim", "rt_stream_at_offset",
    "rt_file_overwritten_after_read", "rt_gzip_stream", "rt_duck_typed_stream", "rt_dtype_cast", "rt_key", "rt_multichannel", "err_no_suffix",
    "err_stream_no_force_as", "err_unknown_force_as", "wds_header_fault", "wds_payload_fault", "wds_last_byte",
    "wds_array_from_damaged", "wds_none", "wds_non_array_return", "wds_wrong_suffix", "wds_unknown_suffix", "wds_valid_image",
] + ["rt_" + k for k in ct.KINDS] + ["wds_" + k for k in ct.KINDS if k != "raw"]
FAULT_KINDS = list(ft.KINDS)
WDS_SUFFIXES = [".wav", ".flac", ".aiff", ".ogg", ".npy", ".npz", ".pt", ".hdf5", ".sph"]


def generate(rng, tier, k):
    if rng.random() < 0.5:
        spec = ct.gen_spec(rng)
        kind = spec["kind"]
        scn = {"mode": "rt", "spec": spec,
               "access": (rng.choice(("path", "path", "fileobj", "fileobj_replaced", "bytesio", "bytesio_offset", "gzip",
                                      "duck")) if kind != "raw" else rng.choice(("path", "fileobj"))),
               "clobber_after": rng.random() < 0.3,
               "other": ct.gen_spec(rng, kind),
               "dtype_req": None,
               "use_key": rng.random() < 0.6, "key_pick": rng.randrange(16),
               "err": rng.choice((None, None, "no_suffix", "stream_no_force", "bad_force_as"))}
        if kind != "raw" and rng.random() < 0.5:
            stored = spec.get("dtype", "int32" if kind == "wav32" else "int16")
            if np.dtype(stored).kind == "f":
                scn["dtype_req"] = rng.choice(("float64", "float32"))
            else:
                scn["dtype_req"] = rng.choice(("float64", "float32", "int32", "int64"))
                spec["small"] = True  # narrowing casts stay value preserving (wrap vs clip is not specified)
        return scn
    spec = ct.gen_spec(rng, rng.choice([k2 for k2 in ct.KINDS if k2 != "raw"]))
    if spec["kind"] in ct.AUDIO:
        spec["n"] = min(spec["n"], 600)
    other = ct.gen_spec(rng, rng.choice(("npy", "wav16", "sph", "flac")))
    if other["kind"] in ct.AUDIO:
        other["n"] = 300
    cases = []
    for _ in range(rng.randrange(24, 41)):
        nf = rng.choice((0, 1, 1, 1, 1, 2, 3)) if cases else 0
        r = rng.random()
        name = "right" if r < 0.7 else ("wrong" if r < 0.9 else "unknown")
        cases.append({"name": name, "pick": rng.randrange(64), "faults": [{"gen": rng.randrange(1 << 30)} for _ in range(nf)]})
    return {"mode": "wds", "spec": spec, "other": other, "cases": cases}


# ------------------------------------------------------------------ fault-free round trips

class _Duck(object):
    """Delegates to a real stream without inheriting from io.IOBase."""

    def __init__(self, f):
        self._f = f

    def __getattr__(self, name):
        return getattr(self._f, name)

    def __iter__(self):
        return iter(self._f)


def _read(src, **kw):
    with warnings.catch_warnings():
        warnings.simplefilter("ignore")
        try:
            return _util.read_signal(src, **kw), None
        except BaseException as e:  # noqa: B902
            return None, e


def _exec_rt(scn, res, tr):
    spec = scn["spec"]
    kind = spec["kind"]
    res.probe("rt_" + kind)
    tmp = tempfile.mkdtemp(prefix="verif-c11-", dir=env.scratch_base())
    fobj = None
    facts = dict(mode="rt", container=kind, access=scn["access"])
    try:
        path, data, ent, dk = ct.image(spec, tmp)
        kw = {}
        key = None
        if ent and None not in ent:
            names = sorted(ent)
            if scn.get("use_key") or dk in (None, "__missing__"):
                key = names[scn.get("key_pick", 0) % len(names)]
                kw["key"] = key
                res.probe("rt_key")
                expected = ent[key]
            else:
                expected = ent[dk]
        else:
            expected = ent[None]
        if kind in ct.AUDIO and expected.ndim == 2:
            res.probe("rt_multichannel")
        if expected.ndim == 0:
            res.probe("rt_zero_dim")
        dt = scn.get("dtype_req")
        if kind == "raw":
            kw["dtype"] = expected.dtype
        elif dt:
            kw["dtype"] = np.dtype(dt)
            expected = expected.astype(dt)
            res.probe("rt_dtype_cast")
        access = scn["access"]
        if access == "path":
            res.probe("rt_path_suffix")
            src = path
            if kind == "raw":
                kw["force_as"] = "file"
        elif access in ("fileobj", "fileobj_replaced"):
            res.probe("rt_fileobj")
            fobj = open(path, "rb")
            src = fobj
            kw["force_as"] = ct.FORCE_AS[kind]
            if access == "fileobj_replaced":
                # the name the stream was opened under now points at ANOTHER container of the same kind: the stream
                # (still the old inode) is what must be read
                res.probe("rt_fileobj_path_replaced")
                tmp2 = tempfile.mkdtemp(prefix="verif-c11b-", dir=env.scratch_base())
                try:
                    p2, _, _, _ = ct.image(scn.get("other") or spec, tmp2)
                    os.replace(p2, path)
                finally:
                    shutil.rmtree(tmp2, ignore_errors=True)
        elif access == "gzip" and kind in ("npy", "sph"):  # (the wave module itself rejects GzipFile: its .mode is an int)
            # a decompressing stream: it has a fileno() (of the COMPRESSED file), is seekable, and is a binary stream
            import gzip

            res.probe("rt_gzip_stream")
            gz = path + ".gz"
            with gzip.open(gz, "wb") as f:
                f.write(data)
            fobj = gzip.open(gz, "rb")
            src = fobj
            kw["force_as"] = ct.FORCE_AS[kind]
        elif access == "duck":
            # a reader object that is not an io.IOBase subclass (tempfile wrappers, mmap, user classes)
            res.probe("rt_duck_typed_stream")
            src = _Duck(io.BytesIO(data))
            kw["force_as"] = ct.FORCE_AS[kind]
        elif access == "bytesio_offset" and kind in ("wav16", "wav32", "npy", "sph"):
            # several recordings back to back in one stream: this one starts at the stream's current position
            res.probe("rt_stream_at_offset")
            junk = b"RIFFjunkWAVE" + bytes(range(256)) * 3
            src = io.BytesIO(junk + data)
            src.seek(len(junk))
            kw["force_as"] = ct.FORCE_AS[kind]
        else:
            res.probe("rt_bytesio")
            src = io.BytesIO(data)
            kw["force_as"] = ct.FORCE_AS[kind]
        out, exc = _read(src, **kw)
        if access == "path" and scn.get("clobber_after") and isinstance(out, np.ndarray):
            # the file is overwritten in place after the read: what was returned must not change with it
            res.probe("rt_file_overwritten_after_read")
            keep = out.copy()
            with open(path, "r+b") as f:
                f.write(b"\xa5" * len(data))
            if not np.array_equal(out, keep, equal_nan=(out.dtype.kind == "f")):
                res.violate("RESULT_ALIASED", "%s: the returned array changed when the file was overwritten afterwards" % kind,
                            **facts)
        tr.log("rt", kind, access, sorted((k, str(v)) for k, v in kw.items()), out, exc)
        if exc is not None:
            res.violate("RAISES", "read_signal(%s via %s, %s) raised %s: %s" % (
                kind, access, {k: str(v) for k, v in kw.items()}, type(exc).__name__, exc), **facts)
        elif not isinstance(out, np.ndarray) or out.shape != expected.shape:
            res.violate("SHAPE", "%s via %s: read shape %s, stored %s" % (
                kind, access, getattr(out, "shape", type(out)), expected.shape), **facts)
        elif out.dtype != expected.dtype:
            res.violate("DTYPE", "%s via %s (dtype=%s): read dtype %s, expected %s" % (
                kind, access, dt, out.dtype, expected.dtype), **facts)
        elif not np.array_equal(out, expected, equal_nan=(expected.dtype.kind == "f")):
            res.violate("VALUES", "%s via %s (key=%r dtype=%s): read values differ from what was stored" % (
                kind, access, key, dt), **facts)
        # error-type probes
        err = scn.get("err")
        if err == "no_suffix" and res.verdict == "OK":
            res.probe("err_no_suffix")
            p2 = os.path.join(tmp, ["noext", "audio.xyz", "x.WAV", "y.npy.bak"][scn.get("key_pick", 0) % 4])
            shutil.copy(path, p2)
            out, exc = _read(p2)
            tr.log("err_no_suffix", out, exc)
            if not isinstance(exc, IOError):
                res.violate("ERROR_TYPE", "read_signal(%r) with no recognised suffix: %s, expected IOError" % (
                    os.path.basename(p2), "returned" if exc is None else "raised " + type(exc).__name__),
                    probe=err, **facts)
        elif err == "stream_no_force" and res.verdict == "OK":
            res.probe("err_stream_no_force_as")
            out, exc = _read(io.BytesIO(data) if scn.get("key_pick", 0) % 2 else _Duck(io.BytesIO(data)))
            tr.log("err_stream", out, exc)
            if not isinstance(exc, ValueError):
                res.violate("ERROR_TYPE", "read_signal(stream) without force_as: %s, expected ValueError" % (
                    "returned" if exc is None else "raised " + type(exc).__name__), probe=err, **facts)
        elif err == "bad_force_as" and res.verdict == "OK":
            res.probe("err_unknown_force_as")
            bogus = ["mp7", "numpy", "WAV", ""][scn.get("key_pick", 0) % 4]
            src = io.BytesIO(data) if scn.get("key_pick", 0) % 2 else path
            out, exc = _read(src, force_as=bogus)
            tr.log("err_force", out, exc)
            if not isinstance(exc, ValueError):
                res.violate("ERROR_TYPE", "read_signal(force_as=%r): %s, expected ValueError" % (
                    bogus, "returned" if exc is None else "raised " + type(exc).__name__), probe=err, **facts)
    finally:
        if fobj is not None:
            fobj.close()
        shutil.rmtree(tmp, ignore_errors=True)
    res.signature = "rt/%s/%s/%s/%s/%s" % (kind, scn["access"], scn.get("dtype_req"), int(bool(scn.get("use_key"))), scn.get("err"))
    res.nontrivial = bool(scn["access"] != "path" or scn.get("dtype_req") or scn.get("err") or "key" in kw)


# ------------------------------------------------------------------ fault-injecting wds runs

def _case_bytes(case, data, other, kind):
    import random

    cur = data
    kinds = []
    fired_any = False
    where = set()
    for f in case["faults"]:
        if "kind" not in f:
            f = ft.gen(random.Random(f["gen"]), len(cur))
        before = cur
        cur, fired = ft.apply(cur, f, other)
        if fired:
            fired_any = True
            kinds.append(f["kind"])
            pos = f.get("at", f["bits"][0][0] if f.get("bits") else None)
            if pos is not None:
                where.add("header" if pos < 64 else ("last" if pos >= len(before) - 1 else "payload"))
    return cur, kinds, fired_any, where


def _case_name(case, kind):
    right = ct.SUFFIX[kind]
    if case["name"] == "right":
        return "utt" + right
    if case["name"] == "wrong":
        cands = [s for s in WDS_SUFFIXES if s != right]
        return "utt" + cands[case["pick"] % len(cands)]
    return ["utt", "utt.xyz", "utt.txt", "utt.WAV", "utt.json"][case["pick"] % 5]


def _child(cases_bytes, wfd):
    """Runs inside the forked child: decode every case, report one JSON line each."""
    out = os.fdopen(wfd, "w")
    devnull = os.open(os.devnull, os.O_WRONLY)
    os.dup2(devnull, 2)  # third-party decoders are noisy on stderr
    signal.signal(signal.SIGALRM, signal.SIG_DFL)  # a hang kills this child; the parent sees the signal
    signal.alarm(30)
    for i, (name, data) in enumerate(cases_bytes):
        out.write(json.dumps(["start", i]) + "\n")
        out.flush()
        try:
            with warnings.catch_warnings():
                warnings.simplefilter("ignore")
                r = _util.wds_read_signal(name, data)
            if r is None:
                rec = ["ret", i, "None", ""]
            elif isinstance(r, np.ndarray):
                rec = ["ret", i, "ndarray", adigest(r)]
            else:
                rec = ["ret", i, "other:" + type(r).__name__, ""]
        except BaseException as e:  # noqa: B902 - "never raises" covers everything
            rec = ["raise", i, type(e).__name__, str(e)[:200]]
        out.write(json.dumps(rec) + "\n")
        out.flush()
    out.close()
    os._exit(0)


def _run_cases_forked(cases_bytes):
    """Returns (records, status). status: 0 ok, ('signal', n, case index) on crash/hang."""
    rfd, wfd = os.pipe()
    pid = os.fork()
    if pid == 0:
        try:
            os.close(rfd)
            _child(cases_bytes, wfd)
        finally:
            os._exit(97)
    os.close(wfd)
    recs = []
    with os.fdopen(rfd, "r") as f:
        for line in f:
            try:
                recs.append(json.loads(line))
            except ValueError:
                pass
    _, st = os.waitpid(pid, 0)
    started = [r[1] for r in recs if r[0] == "start"]
    done = [r for r in recs if r[0] != "start"]
    if os.WIFSIGNALED(st) or (os.WIFEXITED(st) and os.WEXITSTATUS(st) != 0):
        sig = os.WTERMSIG(st) if os.WIFSIGNALED(st) else -os.WEXITSTATUS(st)
        return done, ("signal", sig, started[-1] if started else -1)
    return done, 0


def _exec_wds(scn, res, tr):
    spec = scn["spec"]
    kind = spec["kind"]
    res.probe("wds_" + kind)
    tmp = tempfile.mkdtemp(prefix="verif-c11-", dir=env.scratch_base())
    try:
        _, data, ent, dk = ct.image(spec, tmp)
        _, other, _, _ = ct.image(scn["other"], tmp)
    finally:
        shutil.rmtree(tmp, ignore_errors=True)
    facts = dict(mode="wds", container=kind)
    cb = []
    meta = []
    for case in scn["cases"]:
        b, kinds, fired, where = _case_bytes(case, data, other, kind)
        name = _case_name(case, kind)
        cb.append((name, b))
        meta.append((kinds, fired, where, name))
        for kk in kinds:
            res.fault(kk)
        if "header" in where:
            res.probe("wds_header_fault")
        if "payload" in where:
            res.probe("wds_payload_fault")
        if "last" in where:
            res.probe("wds_last_byte")
        if case["name"] == "wrong":
            res.probe("wds_wrong_suffix")
        elif case["name"] == "unknown":
            res.probe("wds_unknown_suffix")
        if not fired and case["name"] == "right":
            res.probe("wds_valid_image")
    # A child that dies (alarm or native crash) while a THIRD-PARTY decoder (libsndfile, HDF5, torch, numpy) chews on
    # damaged bytes is counted and skipped: the hook cannot swallow that and the library cannot repair it (observed:
    # HDF5 loops for ever on some two-bit-flip images). The same inside the repository's own SPHERE decoder is a violation.
    recs, status = [], 0
    start = 0
    dep_deaths = []
    while start < len(cb):
        part, st = _run_cases_forked(cb[start:])
        for r in part:
            r[1] += start
        recs.extend(part)
        if st == 0:
            break
        _, sig, idx = st
        idx = start + max(idx, 0)
        if meta[idx][3].endswith(".sph"):
            status = ("signal", sig, idx)
            break
        dep_deaths.append((idx, sig))
        res.probe("dependency_hang" if sig == signal.SIGALRM else "dependency_crash")
        tr.log("wds_dependency_death", idx, meta[idx][3], sig)
        start = idx + 1
    for r in recs:
        i = r[1]
        tr.log("wds", i, meta[i][3], len(cb[i][1]), r[0], r[2], r[3])
        if r[0] == "raise":
            res.violate("WDS_RAISES", "wds_read_signal(%r, <%d bytes: %s image after faults %s>) raised %s: %s" % (
                meta[i][3], len(cb[i][1]), kind, meta[i][0], r[2], r[3]), case=i, **facts)
        elif r[2].startswith("other:"):
            # e.g. an .npz image named .npy decodes to an NpzFile: odd, but neither a raise nor promised otherwise
            res.probe("wds_non_array_return")
        elif r[2] == "None":
            res.probe("wds_none")
        elif meta[i][1]:
            res.probe("wds_array_from_damaged")
        if r[2] == "None" and not meta[i][1] and scn["cases"][i]["name"] == "right" and kind not in ("npz", "hdf5"):
            # an undamaged image under its own suffix is certainly decodable
            res.violate("WDS_NONE_FOR_VALID", "wds_read_signal returned None for an undamaged %s image named %r" % (
                kind, meta[i][3]), case=i, **facts)
    if status != 0:
        _, sig, idx = status
        cls = "WDS_HANG" if sig == signal.SIGALRM else "WDS_NATIVE_CRASH"
        res.violate(cls, "decoder process died with %s while handling case %d (%r, %d bytes, faults %s)" % (
            ("signal %d" % sig) if sig > 0 else ("exit %d" % -sig), idx, meta[idx][3] if idx >= 0 else None,
            len(cb[idx][1]) if idx >= 0 else -1, meta[idx][0] if idx >= 0 else None), case=idx, **facts)
    allk = sorted(set(k for m in meta for k in m[0]))
    names = sorted(set(c["name"] for c in scn["cases"]))
    res.signature = "wds/%s/%s/%s" % (kind, "+".join(allk), "+".join(names))
    res.nontrivial = any(m[1] for m in meta)
    return len(cb)


def execute(scn, keep_trace=False):
    res = Result()
    tr = Trace(keep_trace)
    if scn["mode"] == "rt":
        _exec_rt(scn, res, tr)
    else:
        _exec_wds(scn, res, tr)
    res.digest = tr.digest()
    res.events = tr.n
    res.trace = tr
    return res


def minimise(scn, test, budget):
    scn = copy.deepcopy(scn)
    if not test(scn):
        return scn
    if scn["mode"] == "wds":
        import random

        # make the generated faults explicit so that they can be edited
        tmp = tempfile.mkdtemp(prefix="verif-c11-", dir=env.scratch_base())
        try:
            _, data, _, _ = ct.image(scn["spec"], tmp)
        finally:
            shutil.rmtree(tmp, ignore_errors=True)
        cases = shrink.ddmin_list(scn["cases"], lambda l: bool(l) and test(dict(scn, cases=l)), budget)
        scn["cases"] = cases
        for ci in range(len(scn["cases"])):
            fl = shrink.ddmin_list(scn["cases"][ci]["faults"],
                                   lambda l, ci=ci: test(_with_faults(scn, ci, l)), budget)
            scn = _with_faults(scn, ci, fl)
    else:
        for key, vals in ((("err",), [None]), (("dtype_req",), [None]), (("access",), ["path"]), (("use_key",), [False])):
            scn = shrink.try_replace(scn, list(key), vals, test, budget)
    return scn


def _with_faults(scn, ci, fl):
    c = copy.deepcopy(scn)
    c["cases"][ci]["faults"] = fl
    return c
