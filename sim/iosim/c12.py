"""C12 - uncompressed NIST SPHERE audio decodes exactly.

System: the real SPHERE reader reached through read_signal. Environment: a storage layer that
holds files produced by an independent writer and injects the faults the statement names:
data section truncated at any byte (a writer that crashed), file shorter than a header, wrong
magic, declared header size below 1024; plus the access path (file name with suffix inference,
file name with force_as, open binary file, in-memory stream)."""
import copy
import io
import os
import shutil
import tempfile
import warnings

import numpy as np

from sim.core import env, shrink
from sim.core.trace import Result, Trace, np_rng
from sim.iosim import g711, sphere_writer as sw

from pydrobert.speech import util as _util

PROPERTY = "C12"
LEVEL = "exploration"
WORKER_RLIMIT_AS = 6 << 30  # NumPy-only workers: an absurd allocation becomes MemoryError, not an OOM kill
TIERS = {
    "quick": {"runs": 120000, "budget": 70, "selftest": 64, "shrink_budget": 300},
    "thorough": {"runs": 500000, "budget": 1200, "selftest": 2000, "shrink_budget": 1000},
}
NUM_FIXED = 8
RULE = (
    "Run indices 0-7 are fixed: all 256 codes of mu-law and of A-law, expanded (default dtype) and raw (uint8 "
    "requested), mono and 2-channel - the exhaustive G.711 part. Every other run draws coding (pcm 01 / pcm 10 / "
    "ulaw / alaw), 1-8 channels, a sample count biased to multiples of 16384/frame_bytes +-3, header size "
    "1024*h with seeded field order and filler fields, an access path, and one fault or none: truncation of the "
    "data section at a seeded byte (mid-sample, mid-frame, on/next to 16 KiB read boundaries, zero data bytes), "
    "file shorter than 1024 bytes, damaged magic, declared header size < 1024. Half of the runs first decode a small file "
    "of another (or the same) coding in the same process, 20 % decode a second file afterwards. Non-trivial = fault fired, or "
    "the file spans >= 2 reads, or frame size does not divide 16384. Distinct = distinct (coding, channels, "
    "header blocks, access path, dtype request, n class relative to the read size, fault kind and position class)."
)
COMPONENTS = {
    "pydrobert.speech.util.read_signal(force_as='sph') and _sphere reader": "real",
    "SPHERE writer, G.711 expansion oracle": "model (independent, in /verif)",
    "storage (truncation, header damage), access path": "stub (simulator)",
    "file system for path / file-object access": "real",
}
ASSUMPTIONS = [
    "only the three header faults the statement names are judged (other header damage is not)",
    "a conforming binary stream returns full reads except at end of file: short reads before EOF are not injected",
    "zero-sample files are not generated; codings limited to 16-bit PCM and 8-bit mu-/A-law as the statement says",
    "sampling, not proof (except the 2 x 256 G.711 codes, which are enumerated)",
]
PROBES = [
    "frame_not_dividing_read_two_reads", "truncate_in_first_read", "truncate_on_read_boundary", "truncate_mid_frame",
    "truncate_zero_data", "big_endian", "header_2048_plus", "raw_codes_requested", "g711_all_codes", "multi_read",
    "bytesio", "fileobj", "suffix_inference", "magic_bytes_at_read_boundary", "frame_exceeds_read_size", "pipe",
    "second_decode", "data_start_on_read_size_multiple", "decode_after_other_coding", "decode_after_same_coding",
]
FAULT_KINDS = ["truncate", "short_file", "bad_magic", "small_hdrsize"]
EXHAUSTIVE = {}
READ = 16384


def generate(rng, tier, k):
    if k < NUM_FIXED:
        law = "ulaw" if k % 2 == 0 else "alaw"
        return {"coding": law, "order": "1", "channels": 1 + (k // 4) % 2, "n": 256, "hdr_blocks": 1, "order_seed": k,
                "extra": 2, "coding_field": True, "seed": 0, "all_codes": True, "access": "bytesio",
                "dtype_req": "uint8" if (k // 2) % 2 else None, "fault": None, "rate": 8000}
    coding = rng.choice(("pcm", "pcm", "pcm", "ulaw", "alaw"))
    order = rng.choice(("01", "10")) if coding == "pcm" else "1"
    ch = rng.choice((1, 1, 2, 2, 3, 3, 4, 5, 6, 7, 8))
    if rng.random() < 0.02:
        # a frame around / beyond the 16 KiB read size
        ch = rng.choice((8191, 8192, 8193, 9000)) if coding == "pcm" else rng.choice((16383, 16384, 16385, 20000))
    fb = ch * (2 if coding == "pcm" else 1)
    per = max(1, READ // fb)
    r = rng.random()
    if fb > 4096:
        n = rng.randrange(1, 6)
    elif r < 0.25:
        n = rng.randrange(1, 40)
    elif r < 0.75:
        n = max(1, per * rng.choice((1, 1, 2, 3)) + rng.randrange(-3, 4))
    else:
        n = rng.randrange(1, 3 * per + 5)
    scn = {
        "coding": coding, "order": order, "channels": ch, "n": n,
        # header sizes incl. ones that make the data start exactly on a multiple of the 16 KiB read size
        "hdr_blocks": rng.choice((1, 1, 1, 2, 3, 4)) if rng.random() < 0.95 else rng.choice((15, 16, 16, 17, 32)),
        "order_seed": rng.randrange(1 << 20), "extra": rng.randrange(0, 6),
        "coding_field": True if coding != "pcm" else rng.random() < 0.6,
        "seed": rng.randrange(1 << 30), "access": rng.choice(("path", "suffix", "fileobj", "bytesio", "bytesio", "pipe")),
        "second": rng.random() < 0.2,
        # what the same process decoded before (module-level state such as lookup tables must not carry over)
        "prior": rng.choice((None, None, None, "pcm", "ulaw", "alaw")),
        "dtype_req": None, "fault": None, "rate": rng.choice((8000, 16000, 44100)),
    }
    if rng.random() < 0.08 and n * fb > READ + 8:
        # payload bytes that spell the shorten magic exactly where a read starts, including the very first one: the
        # header says the file is not compressed
        first = 1 if os.environ.get("VERIF_C12_SKIP_OFFSET0") else 0  # (development knob, see seeded/C12-c/meta.json)
        scn["magic_at"] = [READ * k for k in range(first, (n * fb - 4) // READ + 1) if rng.random() < 0.7][:4]
    if coding != "pcm" and rng.random() < 0.3:
        scn["dtype_req"] = "uint8"
    elif coding == "pcm" and rng.random() < 0.15:
        scn["dtype_req"] = rng.choice(("int32", "float64"))
    r = rng.random()
    total = n * fb
    if r < 0.4:
        q = rng.random()
        if q < 0.1:
            t = 0
        elif q < 0.35:
            t = rng.randrange(0, min(total, READ))
        elif q < 0.6 and total > READ:
            t = READ * rng.randrange(1, total // READ + 1) + rng.choice((-fb, -1, 0, 0, 1, fb))
        elif q < 0.8:
            t = (rng.randrange(0, n) * fb) + rng.randrange(1, fb) if fb > 1 else rng.randrange(0, total)
        else:
            t = rng.randrange(0, total)
        scn["fault"] = {"kind": "truncate", "data_bytes": int(max(0, min(t, total - 1)))}
    elif r < 0.46:
        scn["fault"] = {"kind": "short_file", "len": rng.choice((0, 1, 7, 8, 16, 512, 1023))}
    elif r < 0.52:
        scn["fault"] = {"kind": "bad_magic", "pos": rng.randrange(0, 7), "byte": rng.choice((0, 32, 66, 255))}
    elif r < 0.58:
        scn["fault"] = {"kind": "small_hdrsize", "value": rng.choice((0, 1, 512, 1000, 1023))}
    return scn


def build(scn):
    """(file bytes, expected array or None, expected warning?, expected error?)"""
    coding, ch, n = scn["coding"], int(scn["channels"]), int(scn["n"])
    g = np_rng(scn["seed"])
    if coding == "pcm":
        if scn.get("all_codes"):
            raise ValueError
        samples = g.integers(-32768, 32768, size=(n, ch)).astype(np.int16)
        if n >= 2:
            samples[0, 0], samples[-1, -1] = -32768, 32767
        body = sw.pcm_body(samples, scn["order"])
        if scn.get("magic_at"):
            b = bytearray(body)
            for off in scn["magic_at"]:
                if off + 4 <= len(b) and off % 2 == 0:
                    b[off : off + 4] = b"ajkg"
            body = bytes(b)
            samples = np.frombuffer(body, dtype="<i2" if scn["order"] == "01" else ">i2").astype(np.int16).reshape(n, ch)
        cv = scn.get("coding_value", "pcm")
        fields = sw.pcm_fields(n, ch, scn.get("rate", 16000), scn["order"], scn.get("coding_field", True), cv)
        expected = samples
        fb = 2 * ch
    else:
        if scn.get("all_codes"):
            codes = np.repeat(np.arange(256, dtype=np.uint8)[:, None], ch, axis=1)
            if ch > 1:
                codes[:, 1] = codes[::-1, 0]
        else:
            codes = g.integers(0, 256, size=(n, ch)).astype(np.uint8)
        if scn.get("magic_at"):
            flat = codes.reshape(-1).copy()
            for off in scn["magic_at"]:
                if off + 4 <= flat.size:
                    flat[off : off + 4] = np.frombuffer(b"ajkg", dtype=np.uint8)
            codes = flat.reshape(n, ch)
        body = sw.law_body(codes)
        fields = sw.law_fields(n, ch, scn.get("rate", 8000), coding)
        if scn.get("dtype_req") == "uint8":
            expected = codes
        else:
            expected = (g711.ULAW if coding == "ulaw" else g711.ALAW)[codes]
        fb = ch
    hdr = sw.header(fields, scn.get("hdr_blocks", 1), scn.get("order_seed", 0), scn.get("extra", 0))
    return hdr, body, expected, fb


def _pipe_reader(data):
    """A buffered reader on the read end of an OS pipe that a thread fills with `data`."""
    import threading

    r, w = os.pipe()

    def feed():
        try:
            with os.fdopen(w, "wb") as f:
                f.write(data)
        except (BrokenPipeError, OSError):
            pass

    t = threading.Thread(target=feed, daemon=True)
    t.start()
    return os.fdopen(r, "rb"), t


def execute(scn, keep_trace=False):
    res = Result()
    tr = Trace(keep_trace)
    hdr, body, expected, fb = build(scn)
    n, ch = int(scn["n"]), int(scn["channels"])
    fault = scn.get("fault")
    data = hdr + body
    expect_err = False
    expect_warn = False
    facts = dict(coding=scn["coding"], channels=ch, fault=fault["kind"] if fault else None,
                 frame_divides_read=(READ % fb == 0), mono=(ch == 1))
    if fault:
        res.fault(fault["kind"])
        k = fault["kind"]
        if k == "truncate":
            t = int(fault["data_bytes"])
            data = hdr + body[:t]
            keep = t // fb
            expected = expected[:keep]
            expect_warn = True
            if t == 0:
                res.probe("truncate_zero_data")
            if t < READ:
                res.probe("truncate_in_first_read")
            if t and t % READ == 0:
                res.probe("truncate_on_read_boundary")
            if t % fb:
                res.probe("truncate_mid_frame")
            facts["trunc_mid_frame"] = bool(t % fb)
        elif k == "short_file":
            data = data[: int(fault["len"])]
            expect_err = True
        elif k == "bad_magic":
            b = bytearray(data)
            if b[fault["pos"]] == fault["byte"]:
                fault = dict(fault, byte=(fault["byte"] + 1) % 256)
            b[fault["pos"]] = fault["byte"]
            data = bytes(b)
            expect_err = True
        elif k == "small_hdrsize":
            b = bytearray(data)
            b[8:15] = ("%7d" % int(fault["value"])).encode()
            data = bytes(b)
            expect_err = True
    if scn["coding"] == "pcm" and scn["order"] == "10":
        res.probe("big_endian")
    if scn.get("hdr_blocks", 1) >= 2:
        res.probe("header_2048_plus")
    if scn.get("hdr_blocks", 1) % 16 == 0:
        res.probe("data_start_on_read_size_multiple")
    if scn.get("dtype_req") == "uint8":
        res.probe("raw_codes_requested")
    if scn.get("all_codes"):
        res.probe("g711_all_codes")
    if scn.get("magic_at"):
        res.probe("magic_bytes_at_read_boundary")
    if fb > READ:
        res.probe("frame_exceeds_read_size")
    if len(body) > READ:
        res.probe("multi_read")
        if READ % fb:
            res.probe("frame_not_dividing_read_two_reads")
    if ch == 1 and expected.ndim == 2:
        expected = expected[:, 0]
    dt = scn.get("dtype_req")
    access = scn.get("access", "bytesio")
    tr.log("file", len(data), access, dt)
    tmp = None
    fobj = None
    try:
        kw = {}
        if dt:
            kw["dtype"] = np.dtype(dt)
        if access == "bytesio":
            res.probe("bytesio")
            src = io.BytesIO(data)
            kw["force_as"] = "sph"
        elif access == "pipe":
            # a non-seekable (but buffered, i.e. full reads until EOF) binary stream
            res.probe("pipe")
            src, pipe_thread = _pipe_reader(data)
            fobj = src
            kw["force_as"] = "sph"
        else:
            tmp = tempfile.mkdtemp(prefix="verif-c12-", dir=env.scratch_base())
            path = os.path.join(tmp, "utt.sph" if access == "suffix" else "utt.dat")
            with open(path, "wb") as f:
                f.write(data)
            if access == "fileobj":
                res.probe("fileobj")
                fobj = open(path, "rb")
                src = fobj
                kw["force_as"] = "sph"
            elif access == "suffix":
                res.probe("suffix_inference")
                src = path
            else:
                src = path
                kw["force_as"] = "sph"
        if scn.get("prior") and not os.environ.get("VERIF_C12_NO_PRIOR"):  # (development knob: tests the history replay)
            res.probe("decode_after_other_coding" if scn["prior"] != scn["coding"] else "decode_after_same_coding")
            scn0 = dict(scn, coding=scn["prior"], order="10" if scn["prior"] == "pcm" else "1", channels=2, n=300,
                        seed=int(scn["seed"]) ^ 0x777, fault=None, all_codes=False, magic_at=None, coding_field=True,
                        hdr_blocks=1)
            h0, b0, _, _ = build(scn0)
            kw0 = {"force_as": "sph"}
            if dt and (scn["prior"] == "pcm") == (scn["coding"] == "pcm"):
                kw0["dtype"] = np.dtype(dt)
            with warnings.catch_warnings():
                warnings.simplefilter("ignore")
                try:
                    _util.read_signal(io.BytesIO(h0 + b0), **kw0)
                except Exception:
                    pass
        out = exc = None
        with warnings.catch_warnings(record=True) as wlist:
            warnings.simplefilter("always")
            try:
                out = _util.read_signal(src, **kw)
            except BaseException as e:  # noqa: B902 - the type is what is judged
                exc = e
        nwarn = len(wlist)
        # a later decode of another file must not change what this one returned
        if scn.get("second") and isinstance(out, np.ndarray):
            res.probe("second_decode")
            keep = out.copy()
            scn2 = dict(scn, n=max(1, int(scn["n"]) // 2), seed=int(scn["seed"]) ^ 0x1234, fault=None, all_codes=False,
                        magic_at=None)
            h2, b2, _, _ = build(scn2)
            try:
                _util.read_signal(io.BytesIO(h2 + b2), **dict(kw, force_as="sph"))
            except Exception:
                pass
            if not np.array_equal(out, keep):
                res.violate("RESULT_ALIASED", "the array returned for one file changed when another file was decoded",
                            **facts)
    finally:
        if fobj is not None:
            fobj.close()
        if tmp:
            shutil.rmtree(tmp, ignore_errors=True)
    tr.log("result", out, exc, nwarn)
    if expect_err:
        if exc is None:
            res.violate("HEADER_ACCEPTED", "%s: read_signal returned %s instead of raising IOError" % (
                fault["kind"], getattr(out, "shape", None)), **facts)
        elif not isinstance(exc, IOError):
            res.violate("HEADER_WRONG_ERROR", "%s: raised %s (%s), not IOError" % (
                fault["kind"], type(exc).__name__, exc), **facts)
    elif exc is not None:
        res.violate("RAISES", "decoding a %s file (%d ch, n=%d, %s) raised %s: %s" % (
            "truncated" if expect_warn else "well-formed", ch, n, scn["coding"], type(exc).__name__, exc), **facts)
    else:
        want_shape = expected.shape
        if not isinstance(out, np.ndarray) or out.shape != want_shape:
            res.violate("SHAPE", "decoded shape %s, stored %s (%s, %d ch, n=%d, fault=%s)" % (
                getattr(out, "shape", type(out)), want_shape, scn["coding"], ch, n, fault), **facts)
        else:
            want_dt = np.dtype(dt) if dt else np.dtype(np.int16)
            if out.dtype != want_dt:
                res.violate("DTYPE", "decoded dtype %s, expected %s" % (out.dtype, want_dt), **facts)
            elif not np.array_equal(out, expected.astype(want_dt)):
                bad = np.argwhere(out != expected.astype(want_dt))
                i = tuple(bad[0])
                res.violate("SAMPLES", "first differing sample at %s: decoded %r stored %r; %d of %d differ "
                            "(%s, %d ch, n=%d, fault=%s)" % (i, out[i].item(), expected[i].item(), len(bad),
                                                             out.size, scn["coding"], ch, n, fault), **facts)
            elif expect_warn and nwarn == 0:
                res.violate("NO_WARNING", "truncated data section decoded without a warning", **facts)
    per = max(1, READ // fb)
    ncls = "tiny" if n < 40 else ("<1r" if n < per - 3 else ("~%dr" % round(n / per) if abs(n - per * round(n / per)) <= 3 else ">1r"))
    fpos = ""
    if fault and fault["kind"] == "truncate":
        t = int(fault["data_bytes"])
        fpos = "@%s%s" % ("0" if t == 0 else ("r" if t % READ == 0 else ("<r" if t < READ else ">r")), "m" if t % fb else "f")
    res.signature = "%s%s/c%s/h%d/%s/%s/%s/%s%s" % (scn["coding"], scn["order"], ch if ch <= 8 else "huge", scn.get("hdr_blocks", 1), access,
                                                    dt, ncls, fault["kind"] if fault else "-", fpos)
    res.nontrivial = bool(fault or len(body) > READ or READ % fb)
    res.digest = tr.digest()
    res.events = tr.n
    res.trace = tr
    return res


def minimise(scn, test, budget):
    scn = copy.deepcopy(scn)
    if not test(scn):
        return scn
    for key, vals in ((("prior",), [None]), (("second",), [False]), (("access",), ["bytesio"]), (("hdr_blocks",), [1]), (("extra",), [0]), (("dtype_req",), [None]),
                      (("coding_field",), [True]), (("order",), ["01"] if scn["coding"] == "pcm" else ["1"])):
        scn = shrink.try_replace(scn, list(key), vals, test, budget)
    if scn.get("fault") and scn["fault"]["kind"] == "truncate":
        fb = scn["channels"] * (2 if scn["coding"] == "pcm" else 1)

        def t_n(v):
            c = copy.deepcopy(scn)
            c["n"] = v
            c["fault"]["data_bytes"] = min(c["fault"]["data_bytes"], max(0, v * fb - 1))
            return test(c)

        scn["n"] = shrink.shrink_int(scn["n"], 1, t_n, budget)
        scn["fault"]["data_bytes"] = min(scn["fault"]["data_bytes"], max(0, scn["n"] * fb - 1))

        def t_t(v):
            c = copy.deepcopy(scn)
            c["fault"]["data_bytes"] = v
            return test(c)

        scn["fault"]["data_bytes"] = shrink.shrink_int(scn["fault"]["data_bytes"], 0, t_t, budget)
    else:
        def t_n(v):
            c = copy.deepcopy(scn)
            c["n"] = v
            return test(c)

        if not scn.get("all_codes"):
            scn["n"] = shrink.shrink_int(scn["n"], 1, t_n, budget)

    def t_c(v):
        c = copy.deepcopy(scn)
        c["channels"] = v
        return test(c)

    scn["channels"] = shrink.shrink_int(scn["channels"], 1, t_c, budget)
    return scn
