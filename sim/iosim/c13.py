"""C13 - shorten-compressed SPHERE audio decodes losslessly.

System: the real shorten decoder inside the SPHERE reader, reached through read_signal.
Environment: storage holding streams produced by an independent randomised encoder
(sim/iosim/shorten_enc.py) and the faults the statement names: the compressed stream ends
early at any byte, an unknown command or version (or file type) is spliced in. The encoder's
predictor state machine, re-implemented as a clean-room decoder (shorten_ref.py, validated on
the six sph2pipe vectors), is the reference model."""
import copy
import io
import math
import os
import shutil
import tempfile
import wave

import numpy as np

from sim.core import env, shrink
from sim.core.trace import Result, Trace, np_rng
from sim.iosim import g711, shorten_enc, shorten_ref, sphere_writer as sw

from pydrobert.speech import util as _util

PROPERTY = "C13"
LEVEL = "exploration"
WORKER_RLIMIT_AS = 6 << 30  # NumPy-only workers: an absurd allocation becomes MemoryError, not an OOM kill
TIERS = {
    "quick": {"runs": 90000, "budget": 70, "selftest": 64, "shrink_budget": 300},
    "thorough": {"runs": 500000, "budget": 1500, "selftest": 2000, "shrink_budget": 800},
}
VECTORS = ["123_1pcbe", "123_1pcle", "123_1ulaw", "123_2pcbe", "123_2pcle", "123_2ulaw"]
NUM_FIXED = 12
RULE = (
    "Run indices 0-5 decode the six shipped sph2pipe vectors and compare with their reference WAVs; 6-11 truncate "
    "them. Every other run draws an encoder plan: version 1/2, file type (s16 big endian, s16 little endian, mu-law "
    "type 8), 1-4 channels, initial block size, max LPC order, mean length, skip bytes, and 1-10 rounds, each "
    "with optional BLOCKSIZE / BITSHIFT commands and per channel a command (DIFF0-3, QLPC with seeded order and "
    "coefficients, ZERO), residual-width slack and a sample recipe; then one fault or none (stream cut at a seeded "
    "byte before its last word, as a fraction of its length or snapped to within 8 bytes of a multiple of 1 KiB; 1.2 % of "
    "the runs cut a shipped vector that way; 15 % / 5 % first decode a damaged stream / a shipped vector of another type; unknown command code 9-12 at a round boundary or before QUIT; version byte "
    "0/3/7/255; file type 9-12). Non-trivial = a fault fired or >= 3 distinct command kinds were decoded. "
    "Distinct = distinct (version, type, channels, nmean, maxnlpc, sorted set of command kinds, fault kind, "
    "cut-position class)."
)
COMPONENTS = {
    "pydrobert.speech._sphere shorten decoder via read_signal(force_as='sph')": "real",
    "shorten encoder and clean-room reference decoder": "model (independent, in /verif; validated on the shipped vectors)",
    "storage (early end of stream, spliced commands)": "stub (simulator)",
}
ASSUMPTIONS = [
    "the encoder emits QLPC only in blocks no shorter than the predictor history, BLOCKSIZE/BITSHIFT only between "
    "rounds, BLOCKSIZE never above the header's block size (as the reference implementation requires), bit shifts only for PCM types (mu-law type 8 is generated lossless, shift 0)",
    "bit flips that keep the stream well-formed decode to something legitimately and are not judged",
    "a stream is cut only before the start of its last 32-bit word (so the QUIT command is certainly lost)",
    "if the reference decoder disagrees with the encoder the run is a harness error, never a violation",
    "sampling, not proof",
]
PROBES = [
    "cmd_DIFF0", "cmd_DIFF1", "cmd_DIFF2", "cmd_DIFF3", "cmd_QLPC", "cmd_ZERO", "cmd_BLOCKSIZE", "cmd_BITSHIFT",
    "final_short_block", "refill_beyond_first_read", "negative_word", "qlpc_nonzero_coffset",
    "bitshift_v2_mean", "version_1", "skip_bytes", "ulaw_raw_codes", "shipped_vector", "body_ends_at_read_boundary",
    "pipe", "decode_after_failed_decode", "cut_next_to_1k_boundary_beyond_first_read",
    "decode_after_other_stream",
]
FAULT_KINDS = ["truncate", "unknown_cmd", "bad_version", "bad_ftype"]


def _snap(t, snap, lo, hi):
    """Move a cut position close to a multiple of 1024 bytes (snap = signed distance, -8..8): decoders refill their bit
    reader in blocks, and what is left over at the end of the last block - no byte, or fewer bytes than a 32-bit word -
    is where "the stream ended early" has to be recognised. Short streams: the residue modulo the word size instead."""
    if snap is None:
        return t
    if t >= 2048:
        t2 = ((t + 512) // 1024) * 1024 + int(snap)
        while t2 > hi:
            t2 -= 1024
    else:
        t2 = (t // 4) * 4 + int(snap) % 4
        while t2 > hi:
            t2 -= 4
    return t2 if lo <= t2 <= hi else t


def _audio_dir():
    return os.path.join(env.repo_root(), "tests", "audio")


def generate(rng, tier, k):
    if k < NUM_FIXED:
        scn = {"vector": VECTORS[k % 6], "fault": None}
        if k >= 6:
            scn["fault"] = {"kind": "truncate", "frac": [0.0002, 0.003, 0.25, 0.5, 0.9, 0.9999][k - 6]}
        return scn
    if rng.random() < 0.012:
        # a shipped vector cut at a seeded position, placed relative to the reader's refill boundaries (the 16 KiB first
        # read, then 1 KiB refills): a last refill of 0-3 bytes is where "not enough for a word" is decided
        return {"vector": rng.choice(VECTORS), "fault": {"kind": "truncate", "frac": rng.random(), "snap": rng.randrange(-8, 9)}}
    version = rng.choice((1, 2, 2))
    ftype = rng.choice((3, 5, 8))
    nchan = rng.choice((1, 1, 2, 2, 3, 4)) if rng.random() < 0.97 else rng.choice((6, 8))
    P = rng.choice((0, 0, 1, 2, 3, 5, 8))
    M = rng.choice((0, 1, 2, 4, 4, 3, 5, 8))
    B = rng.choice((1, 2, 3, 4, 7, 8, 16, 32, 61, 128, 256)) if rng.random() < 0.6 else rng.randrange(1, 300)
    long_run = rng.random() < 0.04
    budget = (14000 if long_run else rng.choice((200, 600, 1500, 4000))) // nchan
    nrounds = rng.randrange(1, 13) if not long_run else 60
    rounds = []
    shift = 0
    total = 0
    nwrap = max(3, P)
    for ri in range(nrounds):
        rnd = {}
        if ri and rng.random() < 0.25:
            B = rng.choice((1, 2, 3, 5, 8, 16, 31, 64, 128, 256)) if rng.random() < 0.5 else rng.randrange(1, 300)
        if ri == nrounds - 1 and ri and rng.random() < 0.4:
            B = max(1, rng.randrange(1, B + 1))  # shorter final block
            rnd["final_short"] = True
        if total + B > budget:
            if not rounds:
                B = max(1, budget)
            else:
                break
        rnd["B"] = B
        if ftype != 8 and rng.random() < 0.2:
            shift = rng.choice((0, 1, 2, 3, 5, 8, 12, 13, 14, 15))
        rnd["shift"] = shift
        blocks = []
        for c in range(nchan):
            cmds = ["DIFF0", "DIFF1", "DIFF2", "DIFF3"]
            if P > 0 and B >= nwrap:
                cmds += ["QLPC", "QLPC"]
            cmds.append("ZERO")
            cmd = rng.choice(cmds)
            blk = {"cmd": cmd, "extra_resn": rng.choice((0, 0, 0, 1, 3))}
            if cmd == "ZERO":
                blk["data"] = {"kind": "zeros"}
            else:
                blk["data"] = {"kind": rng.choice(("noise", "noise", "sine", "steps", "zeros", "const", "meantie")),
                               "v2": version >= 2,
                               "seed": rng.randrange(1 << 30),
                               "amp": rng.choice((3, 40, 700, 9000, 32767)) if not long_run else 32767}
                if long_run:
                    blk["data"]["kind"] = "noise"
            if cmd == "QLPC":
                n = rng.randrange(0, min(P, 3) + 1) if rng.random() < 0.3 else rng.randrange(1, P + 1)
                blk["q"] = [rng.randrange(-40, 41) for _ in range(n)]
            blocks.append(blk)
        rnd["blocks"] = blocks
        rounds.append(rnd)
        total += B
    plan = {"version": version, "ftype": ftype, "nchan": nchan, "maxnlpc": P, "nmean": M,
            # a BLOCKSIZE command may only shrink the block (the reference implementation sizes its buffers
            # from the header's block size), so the header carries the largest block of the plan
            "blocksize0": max(max(r["B"] for r in rounds), rng.choice((1, 1, 1, 256))),
            "nskip_bytes": [rng.randrange(256) for _ in range(rng.choice((0, 0, 0, 2, 5)))],
            "ulong_slack": rng.choice((0, 0, 1, 3)), "rounds": rounds}
    fit = None
    if long_run and rng.random() < 0.7:
        # tune the last block so that the compressed body ends exactly at / next to the first 16 KiB read boundary
        fit = 16384 + rng.choice((1, 1, 1, -3, 5, 9, 1021 + 1, 1025))
    scn = {"plan": plan, "fit_body": fit, "access": rng.choice(("bytesio", "bytesio", "path", "fileobj", "pipe")),
           "prior_failed_decode": rng.random() < 0.15, "fault": None,
           "prior_vector": rng.choice(("123_1ulaw", "123_1pcle", "123_1pcbe")) if rng.random() < 0.05 else None,
           "dtype_req": "uint8" if (ftype == 8 and rng.random() < 0.3) else None, "hdr_blocks": rng.choice((1, 1, 2)),
           "order_seed": rng.randrange(1 << 20)}
    r = rng.random()
    if r < 0.22:
        scn["fault"] = {"kind": "truncate", "frac": rng.choice((0.0, rng.random(), rng.random(), 0.999999)),
                        "snap": rng.choice((None, None, rng.randrange(-8, 9), rng.randrange(-8, 9)))}
    elif r < 0.30:
        scn["fault"] = {"kind": "unknown_cmd", "at": rng.randrange(0, len(rounds) + 1), "code": rng.choice((9, 10, 11, 12, 17))}
    elif r < 0.35:
        scn["fault"] = {"kind": "bad_version", "byte": rng.choice((0, 3, 7, 255))}
    elif r < 0.40:
        scn["fault"] = {"kind": "bad_ftype", "value": rng.choice((9, 10, 12))}
    return scn


def gen_samples(data, B, shift, ftype):
    kind = data["kind"]
    if ftype == 8:
        if kind == "zeros":
            return [255] * B
        g = np_rng(data.get("seed", 0))
        if kind == "const":
            return [int(g.integers(0, 256))] * B
        if kind == "noise":
            return [int(v) for v in g.integers(0, 256, size=B)]
        # smooth-ish: walk over ranks
        r = np.clip(np.cumsum(g.integers(-3, 4, size=B)) + int(g.integers(-60, 60)), -128, 127)
        return [int(255 - x) if x >= 0 else int(x + 128) for x in r]
    if kind == "zeros":
        return [0] * B
    g = np_rng(data.get("seed", 0))
    amp = int(data.get("amp", 100))
    if kind == "noise":
        v = np.round(g.standard_normal(B) * amp / 3.0)
    elif kind == "sine":
        v = np.round(amp * np.sin(np.arange(B) * float(g.uniform(0.01, 1.5)) + float(g.uniform(0, 6))))
    elif kind == "steps":
        v = np.where(g.random(B) < 0.5, amp, -amp - 1)
    elif kind == "meantie":
        # block sum (plus the version-2 rounding term) is an exact multiple of the block size: the running mean sits
        # exactly on an integer, where a sloppy division goes wrong
        c = int(g.integers(-min(amp, 30000), min(amp, 30000) + 1))
        v = np.full(B, c)
        if data.get("v2") and B > 1:
            v[0] -= B // 2
    else:
        v = np.full(B, int(g.integers(-amp, amp + 1)))
    v = np.clip(v, -32768, 32767).astype(np.int64)
    v = (v >> shift) << shift
    return [int(x) for x in v]


def realise_fit(plan, target):
    """Deterministically cut and tune the plan so that the encoded stream is exactly `target` bytes long (a body that
    ends right where the decoder's first 16 KiB buffer does); None when no fit is found."""
    base, _ = realise(plan)
    enc = shorten_enc.Encoder(dict(base, rounds=[]))
    nwrap = max(3, base["maxnlpc"])
    head = []
    for rnd in base["rounds"]:
        probe = enc.clone_state()
        probe.add_round(rnd)
        bits = len(enc.bw.bits) + len(probe.bw.bits) + enc.tail_bits()
        if shorten_enc.stream_len(bits) < target:
            enc.add_round(rnd)
            head.append(rnd)
            continue
        # this round crosses the target: tune its block size and residual widths
        for Bp in range(rnd["B"], max(0, rnd["B"] - 48), -1):
            for extra in (0, 1, 2, 3, 4, 5):
                cand = copy.deepcopy(rnd)
                cand["B"] = Bp
                if any(b["cmd"] == "QLPC" for b in cand["blocks"]) and Bp < nwrap:
                    continue
                for blk in cand["blocks"]:
                    blk["samples"] = blk["samples"][:Bp]
                    blk["extra_resn"] = extra
                probe = enc.clone_state()
                probe.add_round(cand)
                bits = len(enc.bw.bits) + len(probe.bw.bits) + enc.tail_bits()
                if shorten_enc.stream_len(bits) == target:
                    p = dict(base, rounds=head + [cand])
                    cols = [[] for _ in range(p["nchan"])]
                    for r2 in p["rounds"]:
                        for c, blk in enumerate(r2["blocks"]):
                            cols[c].extend(blk["samples"])
                    return p, np.array(cols, dtype=np.int64).T.reshape(-1, p["nchan"])
        return None
    return None


def realise(plan):
    """Fill every block with literal samples; returns (encoder plan, expected (n, nchan) int array)."""
    p = copy.deepcopy(plan)
    cols = [[] for _ in range(p["nchan"])]
    shift = 0
    for rnd in p["rounds"]:
        if rnd.get("shift") is not None:
            shift = rnd["shift"]
        for c, blk in enumerate(rnd["blocks"]):
            blk["samples"] = gen_samples(blk["data"], rnd["B"], shift, p["ftype"])
            cols[c].extend(blk["samples"])
    exp = np.array(cols, dtype=np.int64).T.reshape(-1, p["nchan"])
    return p, exp


def _sphere_file(stream, ftype, nchan, nsamp, hdr_blocks, order_seed):
    if ftype == 8:
        fields = sw.law_fields(nsamp, nchan, 8000, "ulaw", "ulaw,embedded-shorten-v2.00")
    else:
        fields = sw.pcm_fields(nsamp, nchan, 16000, "10" if ftype == 3 else "01", True, "pcm,embedded-shorten-v2.00")
    return sw.header(fields, hdr_blocks, order_seed, 2) + stream


def _decode(data, access, dt):
    kw = {"force_as": "sph"}
    if dt:
        kw["dtype"] = np.dtype(dt)
    tmp = fobj = None
    try:
        if access == "bytesio":
            src = io.BytesIO(data)
        elif access == "pipe":
            from sim.iosim.c12 import _pipe_reader

            fobj, _t = _pipe_reader(data)
            src = fobj
        else:
            tmp = tempfile.mkdtemp(prefix="verif-c13-", dir=env.scratch_base())
            path = os.path.join(tmp, "utt.sph")
            with open(path, "wb") as f:
                f.write(data)
            if access == "fileobj":
                fobj = open(path, "rb")
                src = fobj
            else:
                src = path
        import warnings

        with warnings.catch_warnings(record=True) as wl:
            warnings.simplefilter("always")
            try:
                return _util.read_signal(src, **kw), None, len(wl)
            except BaseException as e:  # noqa: B902
                return None, e, len(wl)
    finally:
        if fobj is not None:
            fobj.close()
        if tmp:
            shutil.rmtree(tmp, ignore_errors=True)


def execute(scn, keep_trace=False):
    res = Result()
    tr = Trace(keep_trace)
    fault = scn.get("fault")
    facts = dict(fault=fault["kind"] if fault else None)
    cut_cls = ""
    if "vector" in scn:
        res.probe("shipped_vector")
        name = scn["vector"]
        raw = open(os.path.join(_audio_dir(), name + "_shn.sph"), "rb").read()
        w = wave.open(os.path.join(_audio_dir(), name + ".wav"))
        expected = np.frombuffer(w.readframes(w.getnframes()), dtype="<i2").reshape(-1, w.getnchannels())
        w.close()
        hs = int(raw.split(b"\n")[1])
        data = raw
        if len(raw) - hs > 16384:
            res.probe("refill_beyond_first_read")
        res.probe("negative_word")
        for c in ("DIFF0", "DIFF1", "DIFF2"):
            res.probe("cmd_" + c)
        expect_err = False
        if fault:
            res.fault("truncate")
            slen = len(raw) - hs
            t = max(4, min(int(fault["frac"] * (slen - 4)), slen - 5))
            t = _snap(t, fault.get("snap"), 4, slen - 5)
            if t > 17000 and (t + 8) % 1024 <= 16:
                res.probe("cut_next_to_1k_boundary_beyond_first_read")
            data = raw[: hs + t]
            expect_err = True
            cut_cls = "@%d" % int(fault["frac"] * 4)
        access, dt = "bytesio", None
        sig = "vector/%s/%s%s" % (name, fault["kind"] if fault else "-", cut_cls)
        facts.update(vector=name)
        kinds = set(["DIFF0", "DIFF1", "DIFF2"])
    else:
        plan, expected = realise(scn["plan"])
        if scn.get("fit_body") and not fault:
            fitted = realise_fit(scn["plan"], int(scn["fit_body"]))
            if fitted is not None:
                plan, expected = fitted
                res.probe("body_ends_at_read_boundary")
        ftype, nchan = plan["ftype"], plan["nchan"]
        facts.update(version=plan["version"], ftype=ftype)
        expect_err = False
        if fault:
            res.fault(fault["kind"])
            if fault["kind"] == "unknown_cmd":
                at = min(int(fault["at"]), len(plan["rounds"]))
                if at >= len(plan["rounds"]):
                    plan["tail_cmd"] = int(fault["code"])
                else:
                    plan["rounds"][at]["inject_cmd"] = int(fault["code"])
                expect_err = True
            elif fault["kind"] == "bad_version":
                plan["version_byte"] = int(fault["byte"])
                expect_err = True
            elif fault["kind"] == "bad_ftype":
                plan["ftype_field"] = int(fault["value"])
                expect_err = True
        stream = shorten_enc.encode(plan)
        # validate the model itself (harness error, never a violation)
        if not fault:
            rf, rn, rout, info = shorten_ref.decode(stream)
            got = np.array(rout, dtype=np.int64).T.reshape(-1, nchan)
            if not np.array_equal(got, expected):
                raise RuntimeError("reference decoder disagrees with the encoder")
            kinds = set(c.rstrip("0123456789") if c.startswith("QLPC") else c for c in info["cmds"])
        else:
            kinds = set(b["cmd"] for r in plan["rounds"] for b in r["blocks"])
        if fault and fault["kind"] == "truncate":
            slen = len(stream)
            t = min(int(fault["frac"] * (slen - 4)), slen - 5)
            t = max(0, t)
            t = _snap(t, fault.get("snap"), 0, max(0, slen - 5))
            if t > 17000 and (t + 8) % 1024 <= 16:
                res.probe("cut_next_to_1k_boundary_beyond_first_read")
            stream = stream[:t]
            expect_err = True
            cut_cls = "@%s" % ("magic" if t < 5 else ("hdr" if t < 9 else "%d" % int(4 * t / max(1, slen))))
        data = _sphere_file(stream, ftype, nchan, expected.shape[0], scn.get("hdr_blocks", 1), scn.get("order_seed", 0))
        if fault and fault["kind"] == "truncate" and t < 4:
            # without its magic the body is not a shorten stream at all: outside the statement
            expect_err = None
        access, dt = scn.get("access", "bytesio"), scn.get("dtype_req")
        for c in kinds:
            if "cmd_" + c in PROBES:
                res.probe("cmd_" + c)
        if any(r.get("final_short") for r in plan["rounds"]):
            res.probe("final_short_block")
        if plan["version"] == 1:
            res.probe("version_1")
        if plan.get("nskip_bytes"):
            res.probe("skip_bytes")
        if len(stream) > 16384:
            res.probe("refill_beyond_first_read")
        if any(stream[i] & 0x80 for i in range(5, len(stream) - 3, 4)):
            res.probe("negative_word")
        if plan["nmean"] and any(b["cmd"] == "QLPC" for r in plan["rounds"][1:] for b in r["blocks"]):
            res.probe("qlpc_nonzero_coffset")
        if plan["version"] >= 2 and plan["nmean"] and any((r.get("shift") or 0) > 0 for r in plan["rounds"]):
            res.probe("bitshift_v2_mean")
        if dt == "uint8":
            res.probe("ulaw_raw_codes")
        if ftype == 8 and dt != "uint8":
            expected = g711.ULAW[expected]
        sig = "v%d/t%d/c%d/M%d/P%d/%s/%s%s" % (plan["version"], ftype, nchan, plan["nmean"], plan["maxnlpc"],
                                               "+".join(sorted(kinds)), fault["kind"] if fault else "-", cut_cls)
    tr.log("file", len(data), access, dt)
    if scn.get("prior_failed_decode") and "vector" not in scn:
        # history: the same process has just failed to decode a damaged stream (decoder state must not leak)
        res.probe("decode_after_failed_decode")
        cut = data[: max(1024 + 6, len(data) - max(8, len(data) // 3))]
        _decode(cut, "bytesio", None)
    if scn.get("prior_vector") and "vector" not in scn:
        # history: the same process has just decoded a stream of another sample type / channel count
        res.probe("decode_after_other_stream")
        _decode(open(os.path.join(_audio_dir(), scn["prior_vector"] + "_shn.sph"), "rb").read(), "bytesio", dt)
    if access == "pipe":
        res.probe("pipe")
    out, exc, nwarn = _decode(data, access, dt)
    tr.log("result", out, exc)
    if expect_err is None:
        pass
    elif expect_err:
        if exc is None:
            res.violate("FAULT_ACCEPTED", "%s: read_signal returned data %s instead of raising IOError" % (
                fault, getattr(out, "shape", None)), **facts)
        elif not isinstance(exc, IOError):
            res.violate("FAULT_WRONG_ERROR", "%s: raised %s (%s), not IOError" % (fault, type(exc).__name__, exc), **facts)
    elif exc is not None:
        res.violate("RAISES", "decoding a valid stream raised %s: %s" % (type(exc).__name__, exc), **facts)
    else:
        want = expected if expected.shape[1] > 1 else expected[:, 0]
        if not isinstance(out, np.ndarray) or out.shape != want.shape:
            res.violate("SHAPE", "decoded shape %s, encoded %s" % (getattr(out, "shape", type(out)), want.shape), **facts)
        elif not np.array_equal(out.astype(np.int64), want.astype(np.int64)):
            bad = np.argwhere(out.astype(np.int64) != want.astype(np.int64))
            i = tuple(bad[0])
            res.violate("SAMPLES", "first differing sample at %s: decoded %r encoded %r; %d of %d differ; commands %s" % (
                i, out[i].item(), want[i].item(), len(bad), out.size, sorted(kinds)), **facts)
        else:
            want_dt = np.dtype(dt) if dt else np.dtype(np.int16)
            if out.dtype != want_dt:
                res.violate("DTYPE", "decoded dtype %s, expected %s" % (out.dtype, want_dt), **facts)
    res.signature = sig
    res.nontrivial = bool(fault or len(kinds) >= 3)
    res.digest = tr.digest()
    res.events = tr.n
    res.trace = tr
    return res


def minimise(scn, test, budget):
    scn = copy.deepcopy(scn)
    if "vector" in scn or not test(scn):
        return scn
    for key, vals in ((("prior_vector",), [None]), (("prior_failed_decode",), [False]), (("access",), ["bytesio"]),
                      (("hdr_blocks",), [1]), (("dtype_req",), [None])):
        if scn.get(key[0]) not in (None, False):
            scn = shrink.try_replace(scn, list(key), vals, test, budget)

    def with_rounds(r):
        c = copy.deepcopy(scn)
        c["plan"]["rounds"] = r
        if c.get("fault") and c["fault"]["kind"] == "unknown_cmd":
            c["fault"]["at"] = min(c["fault"]["at"], len(r))
        return c

    r = shrink.ddmin_list(scn["plan"]["rounds"], lambda l: bool(l) and test(with_rounds(l)), budget)
    scn = with_rounds(r)
    for key, vals in ((("plan", "nskip_bytes"), [[]]), (("plan", "ulong_slack"), [0]), (("plan", "nmean"), [0]),
                      (("plan", "version"), [2])):
        scn = shrink.try_replace(scn, list(key), vals, test, budget)
    # shrink block sizes
    for ri in range(len(scn["plan"]["rounds"])):
        def t_b(v, ri=ri):
            c = copy.deepcopy(scn)
            c["plan"]["rounds"][ri]["B"] = v
            c["plan"]["blocksize0"] = max(r["B"] for r in c["plan"]["rounds"])
            return test(c)
        nw = max(3, scn["plan"]["maxnlpc"])
        lo = nw if any(b["cmd"] == "QLPC" for b in scn["plan"]["rounds"][ri]["blocks"]) else 1
        cur = scn["plan"]["rounds"][ri]["B"]
        if cur > lo:
            nb = shrink.shrink_int(cur, lo, t_b, budget)
            scn["plan"]["rounds"][ri]["B"] = nb
            scn["plan"]["blocksize0"] = max(r["B"] for r in scn["plan"]["rounds"])
    return scn
