"""Container images written with each container's own writer (never with pydrobert code)."""
import io
import os
import wave

import numpy as np

from sim.core.trace import np_rng
from sim.iosim import sphere_writer as sw

KINDS = ("wav16", "wav32", "flac", "aiff", "npy", "npz", "pt", "hdf5", "raw", "sph")
SUFFIX = {"wav16": ".wav", "wav32": ".wav", "flac": ".flac", "aiff": ".aiff", "npy": ".npy", "npz": ".npz",
          "pt": ".pt", "hdf5": ".hdf5", "raw": ".raw", "sph": ".sph"}
FORCE_AS = {"wav16": "wav", "wav32": "wav", "flac": "flac", "aiff": "aiff", "npy": "npy", "npz": "npz", "pt": "pt",
            "hdf5": "hdf5", "raw": "file", "sph": "sph"}
AUDIO = ("wav16", "wav32", "flac", "aiff", "sph")
GENERIC_DTYPES = ("float64", "float32", "int16", "int32", "int64", "uint8")


def _gen(g, shape, dtype, small=False):
    return np.asarray(_gen0(g, shape, dtype, small), dtype=dtype)  # (a 0-d draw is a scalar: make it an array)


def _gen0(g, shape, dtype, small=False):
    dt = np.dtype(dtype)
    if dt.kind == "f":
        return np.asarray(g.standard_normal(shape) * 100).astype(dt)
    info = np.iinfo(dt)
    if small:
        # values every requested dtype can represent: a narrowing cast is then unambiguous
        return g.integers(max(info.min, -30000), min(info.max, 30000), size=shape, dtype=dt, endpoint=True)
    return g.integers(info.min, info.max, size=shape, dtype=dt, endpoint=True)


def make(spec, path):
    """Write the container described by `spec` to `path`; return {entry key or None: expected array} and the
    key that a key-less read returns."""
    kind = spec["kind"]
    g = np_rng(spec["seed"])
    if kind in AUDIO:
        n, ch = int(spec["n"]), int(spec["channels"])
        dt = "int32" if kind == "wav32" else "int16"
        data = _gen(g, (n, ch), dt, spec.get("small", False))
        exp = data if ch > 1 else data[:, 0]
        if kind in ("wav16", "wav32"):
            w = wave.open(path, "wb")
            w.setnchannels(ch)
            w.setsampwidth(2 if kind == "wav16" else 4)
            w.setframerate(int(spec.get("rate", 16000)))
            w.writeframes(data.astype("<i2" if kind == "wav16" else "<i4").tobytes())
            w.close()
        elif kind in ("flac", "aiff"):
            import soundfile

            soundfile.write(path, data, int(spec.get("rate", 16000)), subtype="PCM_16", format=kind.upper())
        else:
            order = spec.get("order", "01")
            hdr = sw.header(sw.pcm_fields(n, ch, int(spec.get("rate", 16000)), order, True), 1, spec["seed"] % 1000, 2)
            with open(path, "wb") as f:
                f.write(hdr + sw.pcm_body(data, order))
        return {None: exp}, None
    shape = tuple(spec["shape"])
    dtype = spec["dtype"]
    if kind == "npy":
        a = _gen(g, shape, dtype, spec.get("small", False))
        np.save(path, a)
        return {None: a}, None
    if kind == "npz":
        ent = {}
        for name in spec["entries"]:
            ent[name] = _gen(g, shape, dtype, spec.get("small", False))
        (np.savez_compressed if spec.get("compress") else np.savez)(path, **ent)
        out = dict(ent)
        return out, ("arr_0" if "arr_0" in ent else "__missing__")
    if kind == "pt":
        import torch

        a = _gen(g, shape, dtype, spec.get("small", False))
        torch.save(torch.from_numpy(a.copy()), path)
        return {None: a}, None
    if kind == "hdf5":
        import h5py

        ent = {}
        with h5py.File(path, "w") as f:
            for name in spec["entries"]:
                a = _gen(g, shape, dtype, spec.get("small", False))
                f.create_dataset(name, data=a)
                ent[name] = a
            for grp in spec.get("empty_groups", []):
                f.require_group(grp)
        return ent, _hdf5_first(spec["entries"], spec.get("empty_groups", []))
    if kind == "raw":
        a = _gen(g, (int(np.prod(shape)),), dtype, spec.get("small", False))
        a.tofile(path)
        return {None: a}, None
    raise ValueError(kind)


def _hdf5_first(datasets, groups):
    """First dataset in a depth-first walk that visits names in sorted order (documented search order)."""
    tree = {}
    for p in list(datasets) + list(groups):
        cur = tree
        parts = p.strip("/").split("/")
        for i, q in enumerate(parts):
            last = i == len(parts) - 1
            if last and p in datasets:
                cur[q] = p
            else:
                cur = cur.setdefault(q, {})

    def walk(node):
        for name in sorted(node):
            v = node[name]
            if isinstance(v, str):
                return v
            r = walk(v)
            if r:
                return r
        return None

    return walk(tree)


def gen_spec(rng, kind=None):
    kind = kind or rng.choice(KINDS)
    spec = {"kind": kind, "seed": rng.randrange(1 << 30)}
    if kind in AUDIO:
        spec["n"] = rng.choice((1, 2, 7, 100, 1000, rng.randrange(1, 3000)))
        spec["channels"] = rng.choice((1, 1, 2, 3))
        spec["rate"] = rng.choice((8000, 16000, 44100))
        if kind == "sph":
            spec["order"] = rng.choice(("01", "10"))
            if rng.random() < 0.3:
                # the SPHERE reader works in 16 KiB reads: payloads that cross one or two read boundaries, with
                # frames that may straddle them (seeded change C11-n needed exactly this)
                spec["n"] = max(1, 16384 // (2 * spec["channels"]) * rng.choice((1, 1, 2)) + rng.randrange(-3, 400))
        return spec
    nd = rng.choice((1, 1, 2, 2, 3)) if (kind == "raw" or rng.random() > 0.06) else 0  # 0-d: a stored scalar
    spec["shape"] = [rng.choice((1, 2, 3, 5, 17, 64)) for _ in range(nd)]
    spec["dtype"] = rng.choice(GENERIC_DTYPES)
    if kind == "npz":
        names = ["arr_0", "arr_1", "feats", "x", "utt-1"]
        k = rng.randrange(1, 4)
        ent = rng.sample(names, k)
        if rng.random() < 0.6 and "arr_0" not in ent:
            ent[0] = "arr_0"
        spec["entries"] = ent
        spec["compress"] = rng.random() < 0.3
    if kind == "hdf5":
        pool = ["a/b/c", "a/b/d/f", "a/z", "g", "m/n", "b"]
        spec["entries"] = rng.sample(pool, rng.randrange(1, 4))
        spec["empty_groups"] = rng.sample(["a/a0/empty", "0first/e", "zz/e"], rng.randrange(0, 3))
    return spec


def image(spec, scratch):
    """(bytes of the container, expected entries, default key)"""
    path = os.path.join(scratch, "img" + SUFFIX[spec["kind"]])
    ent, dk = make(spec, path)
    with open(path, "rb") as f:
        data = f.read()
    return path, data, ent, dk
