"""Storage faults applied to a container image (bytes -> bytes). Every fault is an explicit,
JSON-able record; applying it is a pure function."""

KINDS = ("truncate", "bitflip", "zerofill", "splice", "duplicate", "empty", "garbage", "lying_header")


def gen(rng, n, kind=None):
    kind = kind or rng.choice(KINDS)
    f = {"kind": kind}
    if kind == "truncate":
        r = rng.random()
        f["at"] = 0 if r < 0.05 else (rng.randrange(0, min(n, 64) + 1) if r < 0.4 else (n - 1 if r < 0.5 else rng.randrange(0, n + 1)))
    elif kind == "bitflip":
        k = rng.choice((1, 1, 2, 8))
        head = rng.random() < 0.6
        f["bits"] = [[rng.randrange(0, max(1, min(n, 128))) if head else rng.randrange(0, max(1, n)), rng.randrange(8)] for _ in range(k)]
    elif kind == "zerofill":
        a = rng.randrange(0, max(1, n))
        f["at"], f["len"] = a, rng.choice((1, 4, 16, 64, 512))
    elif kind == "splice":
        f["at"] = rng.randrange(0, max(1, n))
        f["src_at"], f["len"] = rng.randrange(0, 4096), rng.choice((4, 16, 64, 256))
    elif kind == "duplicate":
        f["at"], f["len"] = rng.randrange(0, max(1, n)), rng.choice((1, 4, 32, 256))
    elif kind == "garbage":
        f["len"], f["seed"] = rng.choice((1, 3, 16, 200, 5000)), rng.randrange(1 << 30)
    elif kind == "lying_header":
        # sizes a decoder either handles quickly or refuses at once; the range in between (1e9 .. 2**31) only makes a
        # decoder slow in proportion to the lie, which the statement says nothing about
        f["value"] = rng.choice((10 ** 6, 10 ** 7, 10 ** 12, 2 ** 40, 2 ** 62))
    return f


def apply(data, f, other=b""):
    """Returns (faulted bytes, fired?)."""
    k = f["kind"]
    n = len(data)
    if k == "truncate":
        at = min(int(f["at"]), n)
        return data[:at], at < n
    if k == "bitflip":
        b = bytearray(data)
        fired = False
        for pos, bit in f["bits"]:
            if pos < n:
                b[pos] ^= 1 << bit
                fired = True
        return bytes(b), fired
    if k == "zerofill":
        a = min(int(f["at"]), n)
        ln = min(int(f["len"]), n - a)
        return data[:a] + b"\0" * ln + data[a + ln :], ln > 0 and data[a : a + ln] != b"\0" * ln
    if k == "splice":
        a = min(int(f["at"]), n)
        sa = min(int(f["src_at"]), max(0, len(other) - 1))
        blk = other[sa : sa + int(f["len"])]
        return data[:a] + blk + data[a + len(blk) :], bool(blk)
    if k == "duplicate":
        a = min(int(f["at"]), n)
        blk = data[a : a + int(f["len"])]
        return data[:a] + blk + data[a:], bool(blk)
    if k == "empty":
        return b"", True
    if k == "garbage":
        import numpy as np

        g = np.random.Generator(np.random.PCG64(int(f["seed"])))
        return g.bytes(int(f["len"])), True
    if k == "lying_header":
        return lie(data, int(f["value"]))
    raise ValueError(k)


def lie(data, value):
    """Make the header promise an enormous payload (container detected from its magic)."""
    import re
    import struct

    if data[:7] == b"NIST_1A":
        try:
            hs = int(data.split(b"\n")[1])
        except Exception:
            return data, False
        m = re.search(rb"sample_count -i (\d+)", data[:hs])
        if m and hs <= len(data):
            txt = data[:hs].rstrip(b" \n")
            txt = txt[: m.start(1)] + str(value).encode() + txt[m.end(1) :]
            if len(txt) + 2 <= hs:
                return txt + b"\n" + b" " * (hs - len(txt) - 2) + b"\n" + data[hs:], True
        return data, False
    if data[:6] == b"\x93NUMPY":
        import io

        import numpy as np

        try:
            fp = io.BytesIO(data)
            ver = np.lib.format.read_magic(fp)
            if ver != (1, 0):
                return data, False
            shape, fortran, dt = np.lib.format.read_array_header_1_0(fp)
            rest = fp.read()
            out = io.BytesIO()
            np.lib.format.write_array_header_1_0(
                out, {"descr": np.lib.format.dtype_to_descr(dt), "fortran_order": fortran, "shape": (int(value),)})
            return out.getvalue() + rest, True
        except Exception:
            return data, False
    if data[:4] == b"RIFF" and data[8:12] == b"WAVE":
        i = data.find(b"data")
        if i > 0 and i + 8 <= len(data):
            return data[: i + 4] + struct.pack("<I", value & 0xFFFFFFFF) + data[i + 8 :], True
    if data[:4] == b"FORM":
        i = data.find(b"COMM")
        if i > 0 and i + 14 <= len(data):
            return data[: i + 10] + struct.pack(">I", value & 0xFFFFFFFF) + data[i + 14 :], True
    return data, False
