"""ITU-T G.711 expansion, written from the recommendation's segment formulas (not from the
repository's tables)."""
import numpy as np


def ulaw_expand(code):
    u = (~int(code)) & 0xFF
    sign = u & 0x80
    exponent = (u >> 4) & 0x07
    mantissa = u & 0x0F
    sample = (((mantissa << 3) + 0x84) << exponent) - 0x84
    return -sample if sign else sample


def alaw_expand(code):
    a = int(code) ^ 0x55
    t = (a & 0x0F) << 4
    seg = (a & 0x70) >> 4
    if seg == 0:
        t += 8
    elif seg == 1:
        t += 0x108
    else:
        t += 0x108
        t <<= seg - 1
    return t if (a & 0x80) else -t


ULAW = np.array([ulaw_expand(c) for c in range(256)], dtype=np.int16)
ALAW = np.array([alaw_expand(c) for c in range(256)], dtype=np.int16)
