"""Independent randomised shorten v1/v2 encoder (DESIGN.md Appendix A).

The encoder follows an explicit *plan* (no randomness here): for every round a block size, a
bit shift and, per channel, the command, predictor parameters, residual-width slack and the
samples. It carries exactly the state a decoder must carry (history wrap, running means, bit
shift) - that state machine is the reference model."""
from sim.iosim.shorten_ref import tdiv


class BitWriter(object):
    def __init__(self):
        self.bits = []

    def put(self, value, n):
        for i in range(n - 1, -1, -1):
            self.bits.append((value >> i) & 1)

    def uvar(self, val, n):
        assert val >= 0
        z = val >> n
        self.bits.extend([0] * z)
        self.bits.append(1)
        self.put(val & ((1 << n) - 1), n)

    def var(self, val, n):
        u = (val << 1) if val >= 0 else (((~val) << 1) | 1)
        self.uvar(u, n + 1)

    def ulong(self, val, slack=0):
        k = max(0, val.bit_length() + slack)
        # keep the unary prefix short
        while (val >> k) > 6:
            k += 1
        self.uvar(k, 2)
        self.uvar(val, k)

    def tobytes(self):
        bits = self.bits + [0] * ((-len(self.bits)) % 32)
        out = bytearray()
        for i in range(0, len(bits), 8):
            b = 0
            for j in range(8):
                b = (b << 1) | bits[i + j]
            out.append(b)
        return bytes(out)


def rank_from_ulaw_code(c):
    """inverse of shorten_ref.ulaw_code_from_rank"""
    return 255 - c if c >= 128 else c - 128


def min_resn(residuals):
    m = 0
    for r in residuals:
        u = (r << 1) if r >= 0 else (((~r) << 1) | 1)
        m = max(m, u)
    # var(resn) = uvar(resn + 1): unary part is u >> (resn + 1); keep it <= 8
    k = 0
    while (m >> (k + 1)) > 8:
        k += 1
    return k


def encode(plan):
    """plan: {version, ftype, nchan, maxnlpc, nmean, blocksize0, nskip_bytes, rounds:[{B?, shift?, blocks:[{cmd,...,
    samples:[...]} per channel]}], tail_cmd?}. Samples are output-domain values (16-bit PCM values, or G.711 codes
    for ftype 8). Returns the stream bytes (magic, version byte, padded bit stream)."""
    v = plan["version"]
    ftype = plan["ftype"]
    nchan = plan["nchan"]
    P = plan["maxnlpc"]
    M = plan["nmean"]
    B = plan["blocksize0"]
    bw = BitWriter()
    sl = plan.get("ulong_slack", 0)
    bw.ulong(int(plan.get("ftype_field", ftype)), sl)  # ftype_field: the bad-file-type fault
    bw.ulong(nchan, sl)
    bw.ulong(B, sl)
    bw.ulong(P, sl)
    bw.ulong(M, sl)
    skip = plan.get("nskip_bytes", [])
    bw.ulong(len(skip), sl)
    for b in skip:
        bw.uvar(b, 7)
    nwrap = max(3, P)
    hist = [[0] * nwrap for _ in range(nchan)]
    offs = [[0] * max(1, M) for _ in range(nchan)]
    shift = 0
    for rnd in plan["rounds"]:
        if rnd.get("inject_cmd") is not None:
            bw.uvar(int(rnd["inject_cmd"]), 2)  # the unknown-command fault
        if rnd.get("B") is not None and rnd["B"] != B:
            B = rnd["B"]
            bw.uvar(5, 2)
            bw.ulong(B, sl)
        if rnd.get("shift") is not None and rnd["shift"] != shift:
            shift = rnd["shift"]
            bw.uvar(6, 2)
            bw.uvar(shift, 2)
        assert len(rnd["blocks"]) == nchan
        for chan, blk in enumerate(rnd["blocks"]):
            s = list(blk["samples"])
            assert len(s) == B, (len(s), B)
            if ftype == 8:
                assert shift == 0
                x = [rank_from_ulaw_code(c) for c in s]
            else:
                for q in s:
                    assert (q >> shift) << shift == q, "sample has low bits below the bit shift"
                x = [q >> shift for q in s]
            if M > 0:
                t = (M // 2 if v >= 2 else 0) + sum(offs[chan][:M])
                coff = tdiv(t, M)
                if v >= 2:
                    coff >>= shift
            else:
                coff = offs[chan][0]
            cmd = blk["cmd"]
            h = hist[chan]
            if cmd == "ZERO":
                assert all(q == 0 for q in x)
                bw.uvar(8, 2)
            elif cmd in ("DIFF0", "DIFF1", "DIFF2", "DIFF3"):
                order = int(cmd[-1])
                buf = list(h) + x
                res = []
                for i in range(nwrap, nwrap + B):
                    if order == 0:
                        p = coff
                    elif order == 1:
                        p = buf[i - 1]
                    elif order == 2:
                        p = 2 * buf[i - 1] - buf[i - 2]
                    else:
                        p = 3 * (buf[i - 1] - buf[i - 2]) + buf[i - 3]
                    res.append(buf[i] - p)
                resn = min_resn(res) + int(blk.get("extra_resn", 0))
                bw.uvar(order, 2)
                bw.uvar(resn, 3)
                for r in res:
                    bw.var(r, resn)
            elif cmd == "QLPC":
                q = list(blk["q"])
                n = len(q)
                assert n <= P and B >= nwrap
                buf = list(h)
                for j in range(1, n + 1):
                    buf[-j] -= coff
                h = buf[:]  # not restored by a decoder
                off = 32 if v >= 2 else 0
                xp = [a - coff for a in x]
                res = []
                for i in range(B):
                    t = off
                    for j in range(n):
                        t += q[j] * buf[-1 - j]
                    res.append(xp[i] - (t >> 5))
                    buf.append(xp[i])
                resn = min_resn(res) + int(blk.get("extra_resn", 0))
                bw.uvar(7, 2)
                bw.uvar(resn, 3)
                bw.uvar(n, 2)
                for c in q:
                    bw.var(c, 5)
                for r in res:
                    bw.var(r, resn)
            else:
                raise ValueError(cmd)
            if M > 0:
                t = (B // 2 if v >= 2 else 0) + sum(x)
                m = tdiv(t, B)
                if v >= 2:
                    m <<= shift
                offs[chan] = offs[chan][1:M] + [m]
            hist[chan] = (h + x)[-nwrap:]
    if plan.get("tail_cmd") is not None:
        bw.uvar(int(plan["tail_cmd"]), 2)
    bw.uvar(4, 2)  # QUIT
    vb = plan.get("version_byte", v)
    return b"ajkg" + bytes([vb & 0xFF]) + bw.tobytes()
