"""Independent randomised shorten v1/v2 encoder (DESIGN.md Appendix A).

The encoder follows an explicit *plan* (no randomness here): for every round a block size, a
bit shift and, per channel, the command, predictor parameters, residual-width slack and the
samples. It carries exactly the state a decoder must carry (history wrap, running means, bit
shift) - that state machine is the reference model."""
from sim.iosim.shorten_ref import tdiv


class BitWriter(object):
    def __init__(self):
        self.bits = []

    def put(self, value, n):
        for i in range(n - 1, -1, -1):
            self.bits.append((value >> i) & 1)

    def uvar(self, val, n):
        assert val >= 0
        z = val >> n
        self.bits.extend([0] * z)
        self.bits.append(1)
        self.put(val & ((1 << n) - 1), n)

    def var(self, val, n):
        u = (val << 1) if val >= 0 else (((~val) << 1) | 1)
        self.uvar(u, n + 1)

    def ulong(self, val, slack=0):
        k = max(0, val.bit_length() + slack)
        # keep the unary prefix short
        while (val >> k) > 6:
            k += 1
        self.uvar(k, 2)
        self.uvar(val, k)

    def tobytes(self):
        bits = self.bits + [0] * ((-len(self.bits)) % 32)
        out = bytearray()
        for i in range(0, len(bits), 8):
            b = 0
            for j in range(8):
                b = (b << 1) | bits[i + j]
            out.append(b)
        return bytes(out)


def rank_from_ulaw_code(c):
    """inverse of shorten_ref.ulaw_code_from_rank"""
    return 255 - c if c >= 128 else c - 128


def min_resn(residuals):
    m = 0
    for r in residuals:
        u = (r << 1) if r >= 0 else (((~r) << 1) | 1)
        m = max(m, u)
    # var(resn) = uvar(resn + 1): unary part is u >> (resn + 1); keep it <= 8
    k = 0
    while (m >> (k + 1)) > 8:
        k += 1
    return k


class Encoder(object):
    """Stateful encoder: header at construction, then add_round() per round, then finish()."""

    def __init__(self, plan, bw=None):
        self.plan = plan
        self.v = plan["version"]
        self.ftype = plan["ftype"]
        self.nchan = plan["nchan"]
        self.P = plan["maxnlpc"]
        self.M = plan["nmean"]
        self.B = plan["blocksize0"]
        self.sl = plan.get("ulong_slack", 0)
        self.nwrap = max(3, self.P)
        self.hist = [[0] * self.nwrap for _ in range(self.nchan)]
        self.offs = [[0] * max(1, self.M) for _ in range(self.nchan)]
        self.shift = 0
        self.bw = bw if bw is not None else BitWriter()
        if bw is None:
            w, sl = self.bw, self.sl
            w.ulong(int(plan.get("ftype_field", self.ftype)), sl)  # ftype_field: the bad-file-type fault
            w.ulong(self.nchan, sl)
            w.ulong(self.B, sl)
            w.ulong(self.P, sl)
            w.ulong(self.M, sl)
            skip = plan.get("nskip_bytes", [])
            w.ulong(len(skip), sl)
            for b in skip:
                w.uvar(b, 7)

    def clone_state(self):
        """A copy that shares nothing mutable and writes into a fresh bit buffer (used to measure a candidate round)."""
        c = Encoder.__new__(Encoder)
        c.__dict__.update(self.__dict__)
        c.hist = [list(h) for h in self.hist]
        c.offs = [list(o) for o in self.offs]
        c.bw = BitWriter()
        return c

    def add_round(self, rnd):
        bw, v, ftype, nchan, P, M, sl, nwrap = self.bw, self.v, self.ftype, self.nchan, self.P, self.M, self.sl, self.nwrap
        if rnd.get("inject_cmd") is not None:
            bw.uvar(int(rnd["inject_cmd"]), 2)  # the unknown-command fault
        if rnd.get("B") is not None and rnd["B"] != self.B:
            self.B = rnd["B"]
            bw.uvar(5, 2)
            bw.ulong(self.B, sl)
        if rnd.get("shift") is not None and rnd["shift"] != self.shift:
            self.shift = rnd["shift"]
            bw.uvar(6, 2)
            bw.uvar(self.shift, 2)
        B, shift = self.B, self.shift
        assert len(rnd["blocks"]) == nchan
        for chan, blk in enumerate(rnd["blocks"]):
            s = list(blk["samples"])
            assert len(s) == B, (len(s), B)
            if ftype == 8:
                assert shift == 0
                x = [rank_from_ulaw_code(c) for c in s]
            else:
                for q in s:
                    assert (q >> shift) << shift == q, "sample has low bits below the bit shift"
                x = [q >> shift for q in s]
            if M > 0:
                t = (M // 2 if v >= 2 else 0) + sum(self.offs[chan][:M])
                coff = tdiv(t, M)
                if v >= 2:
                    coff >>= shift
            else:
                coff = self.offs[chan][0]
            cmd = blk["cmd"]
            h = self.hist[chan]
            if cmd == "ZERO":
                assert all(q == 0 for q in x)
                bw.uvar(8, 2)
            elif cmd in ("DIFF0", "DIFF1", "DIFF2", "DIFF3"):
                order = int(cmd[-1])
                buf = list(h) + x
                res = []
                for i in range(nwrap, nwrap + B):
                    if order == 0:
                        p = coff
                    elif order == 1:
                        p = buf[i - 1]
                    elif order == 2:
                        p = 2 * buf[i - 1] - buf[i - 2]
                    else:
                        p = 3 * (buf[i - 1] - buf[i - 2]) + buf[i - 3]
                    res.append(buf[i] - p)
                resn = min_resn(res) + int(blk.get("extra_resn", 0))
                bw.uvar(order, 2)
                bw.uvar(resn, 3)
                for r in res:
                    bw.var(r, resn)
            elif cmd == "QLPC":
                q = list(blk["q"])
                n = len(q)
                assert n <= P and B >= nwrap
                buf = list(h)
                for j in range(1, n + 1):
                    buf[-j] -= coff
                h = buf[:]  # not restored by a decoder
                off = 32 if v >= 2 else 0
                xp = [a - coff for a in x]
                res = []
                for i in range(B):
                    t = off
                    for j in range(n):
                        t += q[j] * buf[-1 - j]
                    res.append(xp[i] - (t >> 5))
                    buf.append(xp[i])
                resn = min_resn(res) + int(blk.get("extra_resn", 0))
                bw.uvar(7, 2)
                bw.uvar(resn, 3)
                bw.uvar(n, 2)
                for c in q:
                    bw.var(c, 5)
                for r in res:
                    bw.var(r, resn)
            else:
                raise ValueError(cmd)
            if M > 0:
                t = (B // 2 if v >= 2 else 0) + sum(x)
                m = tdiv(t, B)
                if v >= 2:
                    m <<= shift
                self.offs[chan] = self.offs[chan][1:M] + [m]
            self.hist[chan] = (h + x)[-nwrap:]

    def tail_bits(self):
        """Bits the stream still needs after the rounds: optional tail command and QUIT."""
        return (BitWriter_len_uvar(int(self.plan["tail_cmd"]), 2) if self.plan.get("tail_cmd") is not None else 0) \
            + BitWriter_len_uvar(4, 2)

    def finish(self):
        if self.plan.get("tail_cmd") is not None:
            self.bw.uvar(int(self.plan["tail_cmd"]), 2)
        self.bw.uvar(4, 2)  # QUIT
        vb = self.plan.get("version_byte", self.v)
        return b"ajkg" + bytes([vb & 0xFF]) + self.bw.tobytes()


def BitWriter_len_uvar(val, n):
    return (val >> n) + 1 + n


def stream_len(bits):
    """Length in bytes of a stream holding `bits` bits (magic, version byte, padding to 32-bit words)."""
    return 5 + 4 * ((bits + 31) // 32)


def encode(plan):
    """plan: {version, ftype, nchan, maxnlpc, nmean, blocksize0, nskip_bytes, rounds:[{B?, shift?, blocks:[{cmd,...,
    samples:[...]} per channel]}], tail_cmd?}. Samples are output-domain values (16-bit PCM values, or G.711 codes
    for ftype 8). Returns the stream bytes (magic, version byte, padded bit stream)."""
    enc = Encoder(plan)
    for rnd in plan["rounds"]:
        enc.add_round(rnd)
    return enc.finish()
