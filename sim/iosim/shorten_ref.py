"""Clean-room reference decoder for shorten v1/v2 streams (DESIGN.md Appendix A). Python ints
only; nothing is taken from the repository's _sphere.py."""


class StreamEnd(Exception):
    pass


class UnknownCommand(Exception):
    pass


class BitReader(object):
    def __init__(self, data):
        self.data = data
        self.pos = 0  # bit position
        self.nbits = (len(data) // 4) * 32  # whole 32-bit words only

    def bit(self):
        if self.pos >= self.nbits:
            raise StreamEnd()
        b = (self.data[self.pos >> 3] >> (7 - (self.pos & 7))) & 1
        self.pos += 1
        return b

    def uvar(self, n):
        z = 0
        while not self.bit():
            z += 1
        v = z
        for _ in range(n):
            v = (v << 1) | self.bit()
        return v

    def var(self, n):
        u = self.uvar(n + 1)
        return ~(u >> 1) if (u & 1) else (u >> 1)

    def ulong(self):
        return self.uvar(self.uvar(2))


def tdiv(a, b):
    """C99 division: truncation toward zero."""
    q = abs(a) // abs(b)
    return q if (a >= 0) == (b > 0) else -q


def ulaw_code_from_rank(x):
    """Type 8 ('AU2'), bit shift 0: signed rank -> G.711 code (x=0 is +0 = 0xFF, x=-1 is -0 = 0x7F)."""
    return 255 - x if x >= 0 else x + 128


def decode(stream):
    """stream: bytes starting with 'ajkg'. Returns (ftype, nchan, list of per-channel sample lists, info)."""
    if stream[:4] != b"ajkg":
        raise ValueError("no magic")
    version = stream[4]
    if version not in (1, 2):
        raise UnknownCommand("version %d" % version)
    br = BitReader(stream[5:])
    ftype = br.ulong()
    nchan = br.ulong()
    B = br.ulong()
    P = br.ulong()
    M = br.ulong()
    nskip = br.ulong()
    for _ in range(nskip):
        br.uvar(7)
    nwrap = max(3, P)
    hist = [[0] * nwrap for _ in range(nchan)]
    offs = [[0] * max(1, M) for _ in range(nchan)]
    shift = 0
    out = [[] for _ in range(nchan)]
    chan = 0
    cmds = []
    while True:
        cmd = br.uvar(2)
        if cmd == 4:  # QUIT
            cmds.append("QUIT")
            break
        if cmd in (0, 1, 2, 3, 7, 8):
            if cmd != 8:
                resn = br.uvar(3)
            if M > 0:
                s = (M // 2 if version >= 2 else 0) + sum(offs[chan][:M])
                coff = tdiv(s, M)
                if version >= 2:
                    coff >>= shift
            else:
                coff = offs[chan][0]
            h = hist[chan]
            x = []
            if cmd == 8:
                x = [0] * B
                cmds.append("ZERO")
            elif cmd == 0:
                x = [br.var(resn) + coff for _ in range(B)]
                cmds.append("DIFF0")
            elif cmd in (1, 2, 3):
                buf = list(h)
                for _ in range(B):
                    r = br.var(resn)
                    if cmd == 1:
                        v = r + buf[-1]
                    elif cmd == 2:
                        v = r + 2 * buf[-1] - buf[-2]
                    else:
                        v = r + 3 * (buf[-1] - buf[-2]) + buf[-3]
                    buf.append(v)
                x = buf[nwrap:]
                cmds.append("DIFF%d" % cmd)
            else:
                n = br.uvar(2)
                q = [br.var(5) for _ in range(n)]
                buf = list(h)
                for j in range(1, n + 1):
                    buf[-j] -= coff
                h[:] = buf  # the decoder does not restore the history it shifted
                off = 32 if version >= 2 else 0
                for _ in range(B):
                    s = off
                    for j in range(n):
                        s += q[j] * buf[-1 - j]
                    buf.append(br.var(resn) + (s >> 5))
                x = [v + coff for v in buf[nwrap:]]
                cmds.append("QLPC%d" % n)
            if M > 0:
                s = (B // 2 if version >= 2 else 0) + sum(x)
                m = tdiv(s, B)
                if version >= 2:
                    m <<= shift
                offs[chan] = offs[chan][1:M] + [m]
            hist[chan] = (h + x)[-nwrap:]
            if ftype == 8:
                out[chan].extend(ulaw_code_from_rank(v) for v in x)
            else:
                out[chan].extend(v << shift for v in x)
            chan = (chan + 1) % nchan
        elif cmd == 5:
            B = br.ulong()
            cmds.append("BLOCKSIZE")
        elif cmd == 6:
            shift = br.uvar(2)
            cmds.append("BITSHIFT")
        else:
            raise UnknownCommand("command %d" % cmd)
    return ftype, nchan, out, {"version": version, "cmds": cmds, "bits": br.pos}
