"""Independent NIST SPHERE writer (header + uncompressed body). Nothing is taken from _sphere.py."""
import random

import numpy as np

FILLER = [
    ("database_id", "-s5", "VERIF"),
    ("database_version", "-s3", "1.0"),
    ("utterance_id", "-s8", "spk0_u01"),
    ("sample_sig_bits", "-i", "16"),
    ("sample_max", "-i", "12345"),
    ("sample_min", "-i", "-12345"),
    ("speaking_rate", "-r", "1.500000"),
    ("recording_site", "-s12", "lab with spc"),
    ("sample_checksum", "-i", "4242"),
]


def header(fields, blocks=1, order_seed=0, extra=0):
    """fields: list of (key, type, value). Returns exactly 1024*blocks bytes."""
    rnd = random.Random(order_seed)
    fl = list(fields)
    fl += rnd.sample(FILLER, min(extra, len(FILLER)))
    rnd.shuffle(fl)
    size = 1024 * blocks
    body = "NIST_1A\n%7d\n" % size
    for k, t, v in fl:
        body += "%s %s %s\n" % (k, t, v)
    body += "end_head\n"
    b = body.encode()
    assert len(b) <= size, "header too long"
    return b + b" " * (size - len(b) - 1) + b"\n"


def pcm_fields(n, channels, rate, order, with_coding, coding_value="pcm"):
    f = [
        ("sample_count", "-i", str(n)),
        ("channel_count", "-i", str(channels)),
        ("sample_n_bytes", "-i", "2"),
        ("sample_byte_format", "-s2", order),
        ("sample_rate", "-i", str(rate)),
    ]
    if with_coding:
        f.append(("sample_coding", "-s%d" % len(coding_value), coding_value))
    return f


def law_fields(n, channels, rate, law, coding_value=None):
    cv = coding_value or law
    return [
        ("sample_count", "-i", str(n)),
        ("channel_count", "-i", str(channels)),
        ("sample_n_bytes", "-i", "1"),
        ("sample_byte_format", "-s1", "1"),
        ("sample_rate", "-i", str(rate)),
        ("sample_coding", "-s%d" % len(cv), cv),
    ]


def pcm_body(samples, order):
    """samples: int16 array (n,) or (n, C), frames interleaved; order '01' little endian, '10' big."""
    a = np.ascontiguousarray(samples, dtype=np.int16)
    return a.astype("<i2" if order == "01" else ">i2").tobytes()


def law_body(codes):
    return np.ascontiguousarray(codes, dtype=np.uint8).tobytes()
