"""MANIFEST.setup_cmd: nothing is compiled; verify that everything the checks import is present offline."""
import importlib
import sys


def main():
    from sim.core import env

    env.setup_imports()
    missing = []
    for m in ("numpy", "torch", "h5py", "soundfile", "ruamel.yaml", "pydrobert.kaldi", "pydrobert.speech", "wave"):
        try:
            importlib.import_module(m)
        except Exception as e:  # noqa
            missing.append("%s (%r)" % (m, e))
    if missing:
        print("SETUP FAILED: cannot import " + ", ".join(missing))
        return 1
    from sim.core import runner

    for prop in sorted(runner.ENGINES):
        try:
            runner.load_engine(prop)
        except ModuleNotFoundError as e:
            if e.name and e.name.startswith("sim."):
                continue  # engine not built (property not claimed)
            raise
    print("setup ok: python %s, repo %s" % (sys.version.split()[0], env.repo_root()))
    return 0


if __name__ == "__main__":
    sys.exit(main())
