"""C16 - Standardize normalises with exactly the statistics it was given.

System: real Standardize instances. Environment: a caller that delivers one data set in H
different histories (partition, permutation, vector / matrix / tensor form, axis, dtype) with
rejected calls interleaved. Reference model: the multiset of accumulated vectors with exact
(rational) mean and variance."""
import copy
import hashlib
import warnings

import numpy as np

from sim.core import shrink
from sim.core.trace import Result, Trace
from sim.statsim import model

from pydrobert.speech import post as _post

PROPERTY = "C16"
LEVEL = "exploration"
TIERS = {
    "quick": {"runs": 50000, "budget": 70, "selftest": 64, "shrink_budget": 300},
    "thorough": {"runs": 300000, "budget": 1200, "selftest": 2000, "shrink_budget": 1000},
}
RULE = (
    "Each run draws a data set (n x d; exactly-summable regime = multiples of 2^-8 bounded by 2^8, or generic "
    "Gaussian regime) and 3-4 histories that deliver the same rows to fresh Standardize instances: random "
    "partition and permutation; every part as single vectors, (m,d) with axis=-1, (d,m) with axis=0, or a 3-/4-D "
    "tensor with the coefficient axis at a random (possibly negative) index; float32 or float64; in a seeded memory "
    "layout (C / Fortran order, negative stride, every other element of a wider buffer, transposed view); rejected calls "
    "(wrong feature dimension, empty array) interleaved. Then apply() on vectors and tensors (norm_var, in_place, "
    "axis, memory layout, leading axes varied) and a no-statistics tensor. In 15 % of the runs another instance has "
    "first accumulated the same number of OTHER vectors and been applied (state shared between instances). Non-trivial = >= 2 histories that differ in partition or form and "
    ">= 1 apply query. Distinct = distinct signatures (regime, n class, d, per history the collapsed sequence of "
    "part forms with rejected-call marks, query forms)."
)
COMPONENTS = {
    "Standardize.accumulate / apply / have_stats": "real",
    "numpy reductions": "real (dependency)",
    "caller (histories, rejected calls)": "stub (simulator)",
    "reference statistics (fractions.Fraction)": "model",
}
ASSUMPTIONS = [
    "zero (or numerically negligible, < 1e-3 relative to the data scale) variances are not generated: the "
    "zero-variance replacement is outside the statement",
    "exactly-summable regime: all histories must agree bit for bit; Gaussian regime and comparison with the "
    "rational model use the conditioning-aware tolerance 1e-12/1e-9 * (1 + E[x^2]/var)",
    "an empty array passed to accumulate may raise or be ignored; it must not change the statistics",
    "sampling, not proof",
]
PROBES = [
    "vector_only_vs_tensor_only", "negative_mean_data", "single_row_parts", "rejected_between_accepted",
    "negative_axis", "float32_part", "mean_much_larger_than_std", "nostats_after_aborted_apply", "many_frames_in_one_call",
    "no_stats_single_vector_tensor", "tensor_4d", "apply_vector", "apply_tensor", "no_stats_tensor", "midway_apply",
    "other_instance_same_count_before", "non_contiguous_part", "apply_non_contiguous", "apply_in_place_non_contiguous_3d", "no_stats_non_contiguous",
]
FAULT_KINDS = ["rejected_wrong_dim", "rejected_empty", "apply_aborted_by_warning"]

FORMS = ("vec", "md", "dm", "t3", "t4")


def _gen_history(rng, n, d, style):
    idx = list(range(n))
    rng.shuffle(idx)
    parts = []
    i = 0
    while i < n:
        if style == "vec":
            m = 1
        elif style == "one":
            m = n
        else:
            r = rng.random()
            if r < 0.3:
                m = 1
            elif r < 0.6:
                m = rng.randrange(1, 5)
            else:
                m = rng.randrange(1, max(2, n // 2 + 1))
        m = min(m, n - i)
        rows = idx[i : i + m]
        i += m
        if style == "vec":
            form = "vec"
        elif style == "one":
            form = rng.choice(("md", "dm", "t3"))
        else:
            form = rng.choice(FORMS[1:]) if m > 1 else rng.choice(("vec", "vec", "md", "dm", "t3"))
        part = {"rows": rows, "form": form, "dtype": rng.choice(("float64", "float64", "float32")),
                "layout": rng.choice(LAYOUTS)}
        if form in ("t3", "t4"):
            nd = 3 if form == "t3" else 4
            part["pos"] = rng.randrange(0, nd)  # where the coefficient axis goes
            part["neg_axis"] = rng.random() < 0.5
            divs = [a for a in range(1, m + 1) if m % a == 0]
            a = rng.choice(divs)
            rest = m // a
            if nd == 4:
                divs2 = [b for b in range(1, rest + 1) if rest % b == 0]
                b = rng.choice(divs2)
                part["factors"] = [a, b, rest // b]
            else:
                part["factors"] = [a, rest]
        elif form == "md":
            part["neg_axis"] = rng.random() < 0.5
        elif form == "dm":
            part["neg_axis"] = rng.random() < 0.3
        parts.append(part)
        # rejected calls (faults)
        r = rng.random()
        if r < 0.12:
            parts.append({"reject": "wrong_dim", "form": rng.choice(("vec", "md", "dm")),
                          "dd": rng.choice((1, -1, 2)), "m": rng.randrange(1, 4)})
        elif r < 0.18:
            parts.append({"reject": "empty", "shape": rng.choice(([0], [0, d], [d, 0], [2, 0, d]))})
    return parts


def generate(rng, tier, k):
    regime = "exact" if rng.random() < 0.7 else "gauss"
    d = rng.choice((1, 2, 3, 3, 5, 8))
    r = rng.random()
    if r < 0.5:
        n = rng.randrange(2, 17)
    elif r < 0.85:
        n = rng.randrange(8, 129)
    else:
        n = rng.randrange(64, 600)
    big = rng.random() < 0.01
    if big:
        # a whole utterance's worth of frames in one call, at / next to block sizes an implementation might use
        regime, d = "exact", rng.choice((1, 2))
        n = rng.choice((4096, 8192, 8192, 16384)) + rng.choice((0, 0, 0, 1, -1))
    rec = {"regime": regime, "n": n, "d": d, "seed": rng.randrange(1 << 30)}
    narrow = rng.random() < 0.15  # coefficients whose spread is tiny compared with their mean (but far from zero variance)
    if regime == "exact":
        rec["spread"] = rng.choice((512, 4096, 30000)) if not narrow else rng.choice((600, 800))
        rec["offsets"] = [rng.choice((0, 0, -20000, 15000, -3000)) if not narrow else rng.choice((60000, -64000, 0))
                          for _ in range(d)]
    else:
        rec["sigma"] = rng.choice((0.01, 1.0, 1.0, 50.0))
        rec["means"] = [rng.choice((0.0, 1.0, -3.0, -12.0, 40.0)) * rec["sigma"] * rng.choice((1, 1, 10))
                        for _ in range(d)]
        if narrow:
            rec["sigma"] = rng.choice((1.0, 2.0))
            rec["means"] = [rng.choice((30000.0, -8000.0, 100000.0, 0.0)) for _ in range(d)]
    nh = rng.choice((3, 3, 4)) if not big else 2
    styles = (["vec", "one"] + ["mixed"] * (nh - 2)) if not big else ["one", "mixed"]
    rng.shuffle(styles)
    hist = [_gen_history(rng, n, d, s) for s in styles]
    queries = []
    for _ in range(rng.choice((1, 2, 3))):
        form = rng.choice(("vec", "md", "dm", "t3"))
        q = {"form": form, "m": rng.randrange(1, 6), "seed": rng.randrange(1 << 30),
             "norm_var": rng.random() < 0.6, "in_place": rng.random() < 0.3,
             "dtype": rng.choice(("float64", "float64", "float32")), "neg_axis": rng.random() < 0.5,
             "pos": rng.randrange(0, 3), "wrong_dim": rng.random() < 0.1,
             "layout": rng.choice(LAYOUTS), "lead": rng.choice((1, 1, 2, 3))}
        queries.append(q)
    nostats = None
    if rng.random() < 0.5:
        nostats = {"m": rng.randrange(3, 20), "seed": rng.randrange(1 << 30), "norm_var": rng.random() < 0.7,
                   "form": rng.choice(("md", "dm", "t3")), "pos": rng.randrange(0, 3), "neg_axis": rng.random() < 0.5,
                   "dtype": rng.choice(("float64", "float32")), "abort_first": rng.random() < 0.3,
                   "layout": rng.choice(LAYOUTS), "lead": rng.choice((1, 1, 2, 3))}
        if rng.random() < 0.4:
            nostats["single"] = {"ndim": rng.choice((2, 3)), "pos": rng.randrange(0, 3), "neg_axis": rng.random() < 0.5,
                                 "norm_var": rng.random() < 0.3, "in_place": rng.random() < 0.5,
                                 "dtype": rng.choice(("float64", "float32", "int16"))}
    midway = rng.random() < 0.3
    return {"data": rec, "histories": hist, "queries": queries, "nostats": nostats, "midway": midway,
            "prior_other": rng.randrange(1, 1 << 30) if rng.random() < 0.15 else None}


LAYOUTS = ("c", "c", "c", "f", "rev", "gap", "gap0", "t")


def _relayout(arr, layout):
    """Same values, shape and dtype in another memory layout (what slicing / transposing a larger array gives a caller):
    f = Fortran order, rev = negative stride along the first axis, gap = every other element of the last axis of a
    wider buffer, gap0 = every other element of the first axis, t = a transposed view of the transposed copy (no two
    axes can be merged into one)."""
    if arr.ndim == 0 or arr.size == 0 or layout == "c":
        return arr
    if layout == "f":
        return np.asfortranarray(arr)
    if layout == "rev":
        return np.ascontiguousarray(arr[::-1])[::-1]
    if layout == "gap":
        big = np.full(arr.shape[:-1] + (2 * arr.shape[-1] + 1,), 7.25, dtype=arr.dtype)
        big[..., 1::2] = arr
        return big[..., 1::2]
    if layout == "gap0":
        big = np.full((2 * arr.shape[0] + 1,) + arr.shape[1:], -3.5, dtype=arr.dtype)
        big[1::2] = arr
        return big[1::2]
    if layout == "t":
        axes = tuple(reversed(range(arr.ndim)))
        return np.ascontiguousarray(arr.transpose(axes)).transpose(axes)
    raise ValueError(layout)


def _shape_part(rows, part, d):
    """Arrange m rows (m x d) as the part's form; returns (array, axis)."""
    form = part["form"]
    m = rows.shape[0]
    if form == "vec":
        assert m == 1
        return rows[0].copy(), -1
    if form == "md":
        return rows.copy(), (-1 if part.get("neg_axis", True) else 1)
    if form == "dm":
        return np.ascontiguousarray(rows.T), (-2 if part.get("neg_axis") else 0)
    fac = list(part["factors"])
    t = rows.reshape(fac + [d])
    nd = len(fac) + 1
    pos = part["pos"] % nd
    t = np.ascontiguousarray(np.moveaxis(t, -1, pos))
    axis = pos - nd if part.get("neg_axis") else pos
    return t, axis


def _query_array(q, d, scale, center):
    g = model.np_rng(q["seed"])
    m = int(q["m"])
    form = q["form"]
    lead = int(q.get("lead", 1)) if form == "t3" else 1
    dd = d + (1 if q.get("wrong_dim") else 0)
    base = np.round(g.standard_normal((m * lead, dd)) * 64) / 64 * scale + center
    if form == "vec":
        return base[0].copy(), -1
    if form == "md":
        return base.copy(), (-1 if q.get("neg_axis") else 1)
    if form == "dm":
        return np.ascontiguousarray(base.T), (-2 if q.get("neg_axis") else 0)
    t = base.reshape(lead, m, dd)
    pos = q["pos"] % 3
    t = np.ascontiguousarray(np.moveaxis(t, -1, pos))
    return t, (pos - 3 if q.get("neg_axis") else pos)


def _sha(a):
    return hashlib.sha1(np.ascontiguousarray(a).tobytes()).hexdigest()


def _stats_fingerprint(inst, d, norm_var_inst):
    """Observable fingerprint of an instance's statistics through the public API only."""
    probe = np.arange(1, d + 1, dtype=np.float64) * 0.75 - 1.0
    try:
        with warnings.catch_warnings():
            warnings.simplefilter("ignore")
            return ("ok", _sha(inst.apply(probe)), bool(inst.have_stats))
    except Exception as e:
        return ("exc", type(e).__name__, bool(inst.have_stats))


def execute(scn, keep_trace=False):
    res = Result()
    tr = Trace(keep_trace)
    rec = scn["data"]
    X = model.make_data(rec)
    n, d = X.shape
    regime = rec["regime"]
    exact = regime == "exact"
    facts = dict(regime=regime)
    hist = scn["histories"]
    sigparts = []
    if (X.mean(axis=0) < 0).any():
        res.probe("negative_mean_data")
    with np.errstate(divide="ignore", invalid="ignore"):
        if n >= 2 and (np.abs(X.mean(axis=0)) / np.maximum(X.std(axis=0), 1e-300) > 1e3).any():
            res.probe("mean_much_larger_than_std")
    scale_data = float(np.abs(X).max()) or 1.0

    if scn.get("prior_other"):
        # history of the process: another instance has accumulated the same NUMBER of other vectors of the same dimension
        # and has been applied (state shared between instances, if any, must be keyed by the statistics themselves)
        res.probe("other_instance_same_count_before")
        g0 = model.np_rng(int(scn["prior_other"]))
        Y = g0.standard_normal((n, d)) * (0.5 * scale_data) + scale_data
        for nv in (True, False):
            o = _post.Standardize(norm_var=nv)
            try:
                with warnings.catch_warnings():
                    warnings.simplefilter("ignore")
                    o.accumulate(Y)
                    o.apply(Y[0])
                    o.apply(Y[: min(n, 3)])
            except Exception:
                pass

    insts = []  # per history: (inst_nv_true, inst_nv_false)
    final_model = None
    ok = True
    for hi, parts in enumerate(hist):
        a = _post.Standardize(norm_var=True)
        b = _post.Standardize(norm_var=False)
        mdl = model.ExactStats(d)
        if bool(a.have_stats):
            res.violate("HAVE_STATS", "fresh instance reports have_stats", phase="construct", **facts)
            ok = False
            break
        forms = []
        accepted = 0
        last_was_reject_after_accept = False
        for pi, part in enumerate(parts):
            if "reject" in part:
                if part["reject"] == "wrong_dim":
                    dd = max(1, d + int(part["dd"]))
                    if dd == d:
                        dd = d + 1
                    m = int(part["m"])
                    arr = np.ones((m, dd))
                    if part["form"] == "vec":
                        arr, ax = arr[0], -1
                    elif part["form"] == "dm":
                        arr, ax = np.ascontiguousarray(arr.T), 0
                    else:
                        ax = -1
                    if not accepted:
                        continue  # the first call defines the dimension: nothing to mismatch yet
                    res.fault("rejected_wrong_dim")
                    before = (_stats_fingerprint(a, d, True), _stats_fingerprint(b, d, False))
                    for inst in (a, b):
                        try:
                            inst.accumulate(arr, ax)
                        except ValueError:
                            pass
                        except Exception as e:
                            res.violate("REJECT", "accumulate with feature dimension %d (expected %d) raised %s, "
                                        "not ValueError" % (dd, d, type(e).__name__), phase="accumulate", **facts)
                            ok = False
                        else:
                            res.violate("REJECT", "accumulate with feature dimension %d (expected %d) did not raise"
                                        % (dd, d), phase="accumulate", **facts)
                            ok = False
                    if not ok:
                        break
                    after = (_stats_fingerprint(a, d, True), _stats_fingerprint(b, d, False))
                    if before != after:
                        res.violate("REJECT_CHANGED_STATS", "a rejected accumulate changed the statistics",
                                    phase="accumulate", **facts)
                        ok = False
                        break
                    forms.append("R")
                    last_was_reject_after_accept = True
                else:
                    res.fault("rejected_empty")
                    arr = np.zeros(part["shape"])
                    before = (_stats_fingerprint(a, d, True), _stats_fingerprint(b, d, False)) if accepted else None
                    for inst in (a, b):
                        try:
                            inst.accumulate(arr)
                        except Exception:
                            pass
                    if accepted:
                        after = (_stats_fingerprint(a, d, True), _stats_fingerprint(b, d, False))
                        if before != after:
                            res.violate("REJECT_CHANGED_STATS", "accumulate of an empty array changed the statistics",
                                        phase="accumulate", **facts)
                            ok = False
                            break
                    elif bool(a.have_stats):
                        res.violate("HAVE_STATS", "have_stats true after only an empty accumulate",
                                    phase="accumulate", **facts)
                        ok = False
                        break
                    forms.append("E")
                continue
            rows = X[part["rows"]]
            arr, ax = _shape_part(rows, part, d)
            arr = _relayout(arr.astype(part.get("dtype", "float64")), part.get("layout", "c"))
            if not arr.flags.c_contiguous:
                res.probe("non_contiguous_part")
            if part.get("dtype") == "float32":
                res.probe("float32_part")
                rows = arr.astype(np.float64)  # what was actually delivered
                rows = rows.reshape(-1) if part["form"] == "vec" else np.moveaxis(
                    rows, ax % rows.ndim if rows.ndim > 1 else 0, -1).reshape(-1, d)
            if ax < 0 and part["form"] != "vec":
                res.probe("negative_axis")
            if part["form"] == "t4":
                res.probe("tensor_4d")
            if len(part["rows"]) == 1:
                res.probe("single_row_parts")
            elif len(part["rows"]) >= 4096:
                res.probe("many_frames_in_one_call")
            if last_was_reject_after_accept:
                res.probe("rejected_between_accepted")
                last_was_reject_after_accept = False
            arr.flags.writeable = False
            sha = _sha(arr)
            try:
                a.accumulate(arr, ax)
                b.accumulate(arr, ax)
            except Exception as e:
                res.violate("RAISES", "accumulate(%s shape %s axis %d) raised %s: %s" % (
                    part["form"], arr.shape, ax, type(e).__name__, e), phase="accumulate", form=part["form"], **facts)
                ok = False
                break
            if _sha(arr) != sha:
                res.violate("INPUT_MODIFIED", "accumulate modified its input", phase="accumulate", **facts)
                ok = False
                break
            mdl.add_rows(rows.reshape(-1, d))
            accepted += 1
            tr.log("acc", hi, pi, part["form"], arr.shape, ax)
            forms.append(part["form"])
            if not bool(a.have_stats):
                res.violate("HAVE_STATS", "have_stats false after an accumulate", phase="accumulate", **facts)
                ok = False
                break
            if scn.get("midway") and hi == 0 and accepted in (2, 3) and mdl.count >= 2:
                if _well(mdl, exact):
                    res.probe("midway_apply")
                    q = {"form": "vec", "m": 1, "seed": 77 + accepted, "norm_var": True, "dtype": "float64"}
                    bad = _check_query(a, b, mdl, q, d, scale_data, X, exact, res, tr, facts, None)
                    if bad:
                        ok = False
                        break
        if not ok:
            break
        # signature of a history: which forms it used, in order of first use (not the full sequence)
        seq = []
        for f in forms:
            if f not in seq:
                seq.append(f)
        sigparts.append(",".join(seq))
        insts.append((a, b, mdl, tuple(sorted(r for p in parts if "reject" not in p for r in p["rows"]))))
        final_model = mdl

    if ok and insts:
        kinds = set()
        for parts in hist:
            fs = set(p["form"] for p in parts if "reject" not in p)
            kinds.add("vec" if fs == {"vec"} else ("tensor" if "vec" not in fs else "mixed"))
        if "vec" in kinds and "tensor" in kinds:
            res.probe("vector_only_vs_tensor_only")
        well = True
        for (_a, _b, mdl_h, _r) in insts:
            if mdl_h.count < 2:
                well = False
                break
            well = well and _well(mdl_h, exact)
        if well:
            for qi, q in enumerate(scn["queries"]):
                outs = []
                for hi, (a, b, mdl_h, rows_h) in enumerate(insts):
                    bad = _check_query(a, b, mdl_h, q, d, scale_data, X, exact, res, tr, facts, outs)
                    if bad:
                        ok = False
                        break
                if not ok:
                    break
                # all histories must agree
                if outs and exact:
                    for hi in range(1, len(outs)):
                        if insts[hi][3] != insts[0][3]:
                            continue  # (minimiser candidates only) not the same multiset of vectors
                        if outs[hi] is not None and outs[0] is not None and not np.array_equal(outs[hi], outs[0]):
                            res.violate("HISTORY_DEPENDENT", "query %d: history %d and history 0 of the same vectors "
                                        "give different transforms (max abs diff %g)" % (
                                            qi, hi, float(np.max(np.abs(outs[hi] - outs[0])))),
                                        phase="apply", **facts)
                            ok = False
                            break
                if not ok:
                    break

    ns = scn.get("nostats")
    if ok and ns:
        _check_nostats(ns, d, res, tr, facts)
        if ns.get("single"):
            _check_nostats_single(ns, d, res, tr, facts)

    res.digest = tr.digest()
    res.events = tr.n
    res.signature = "%s/n%s/d%d/%s/q%s" % (regime, "s" if n < 17 else ("m" if n < 129 else "l"), d, "|".join(sigparts),
                                           "".join(q["form"][0] for q in scn["queries"]))
    res.nontrivial = bool(len(set(sigparts)) >= 2 and scn["queries"]) or bool(res.probes)
    res.trace = tr
    return res


def _well(mdl, exact):
    """Variance far from the zero-variance replacement (numpy.isclose to 0, i.e. <= 1e-8) in every coefficient and a
    conditioning E[x^2]/var that leaves the comparison tolerance meaningful (<= 1e-3 relative)."""
    mean, var = mdl.mean_var()
    for j in range(len(var)):
        v = float(var[j])
        if v <= 1e-4:
            return False
        if float(mdl.ss[j] / mdl.count) / v > (1e9 if exact else 1e6):
            return False
    return True


def _check_query(a, b, mdl, q, d, scale_data, X, exact, res, tr, facts, outs):
    inst = a if q.get("norm_var", True) else b
    center = float(X.mean())
    arr, ax = _query_array(q, d, scale_data / 4.0 if exact else float(X.std()) or 1.0, round(center))
    arr = _relayout(arr.astype(q.get("dtype", "float64")), q.get("layout", "c"))
    if arr.ndim == 1:
        res.probe("apply_vector")
    else:
        res.probe("apply_tensor")
    if not arr.flags.c_contiguous:
        res.probe("apply_non_contiguous")
        if arr.ndim == 3 and q.get("in_place"):
            res.probe("apply_in_place_non_contiguous_3d")
    inp = arr.copy()
    in_place = bool(q.get("in_place"))
    if not in_place:
        arr.flags.writeable = False
    if q.get("wrong_dim"):
        try:
            with warnings.catch_warnings():
                warnings.simplefilter("ignore")
                inst.apply(arr, ax, in_place)
        except ValueError:
            tr.log("apply_rejected")
            if outs is not None:
                outs.append(None)
            return False
        except Exception as e:
            res.violate("REJECT", "apply with mismatching feature dimension raised %s, not ValueError" % type(e).__name__,
                        phase="apply", **facts)
            return True
        res.violate("REJECT", "apply with mismatching feature dimension (%s, axis %d; statistics have %d) did not raise"
                    % (arr.shape, ax, d), phase="apply", **facts)
        return True
    try:
        with warnings.catch_warnings():
            warnings.simplefilter("ignore")
            out = inst.apply(arr, ax, in_place)
    except Exception as e:
        res.violate("RAISES", "apply(shape %s axis %d norm_var=%s in_place=%s) raised %s: %s" % (
            arr.shape, ax, q.get("norm_var", True), in_place, type(e).__name__, e), phase="apply", **facts)
        return True
    tr.log("apply", q["form"], out)
    if not isinstance(out, np.ndarray) or out.dtype != np.float64:
        res.violate("DTYPE", "apply returned %s, expected float64" % getattr(out, "dtype", type(out)),
                    phase="apply", **facts)
        return True
    if out.shape != inp.shape:
        res.violate("SHAPE", "apply returned shape %s for input %s" % (out.shape, inp.shape), phase="apply", **facts)
        return True
    if not in_place and not np.array_equal(arr, inp):
        res.violate("INPUT_MODIFIED", "apply modified its input although in_place is False", phase="apply", **facts)
        return True
    ref, m, v, cond = mdl.reference(inp.astype(np.float64), ax, q.get("norm_var", True))
    base = 1e-12 if exact else 1e-9
    shp = [1] * inp.ndim
    if inp.ndim == 1:
        shp = [-1]
    else:
        shp[ax] = -1
    sd = np.sqrt(v) if q.get("norm_var", True) else np.ones_like(v)
    mag = (np.abs(inp.astype(np.float64)) + np.abs(m).reshape(shp)) / sd.reshape(shp)
    tol = base * (1.0 + cond.reshape(shp)) * mag + 1e-300
    err = np.abs(out - ref)
    if (err > tol).any():
        i = np.unravel_index(int(np.argmax(err / tol)), err.shape)
        res.violate("VALUES", "apply differs from (x-mean)/std of the accumulated vectors at %s: got %r, exact model %r "
                    "(norm_var=%s, form %s, axis %d)" % (i, float(out[i]), float(ref[i]), q.get("norm_var", True),
                                                        q["form"], ax), phase="apply", **facts)
        return True
    if outs is not None:
        outs.append(out)
    return False


def _check_nostats(ns, d, res, tr, facts):
    g = model.np_rng(ns["seed"])
    m = int(ns["m"])
    base = g.standard_normal((m, d)) * 3.0 + np.linspace(-5, 5, d)[None, :]
    base[1] = base[0] + 2.0
    q = {"form": ns["form"], "pos": ns.get("pos", 0), "neg_axis": ns.get("neg_axis")}
    form = ns["form"]
    if form == "md":
        arr, ax = base.copy(), (-1 if ns.get("neg_axis") else 1)
    elif form == "dm":
        arr, ax = np.ascontiguousarray(base.T), (-2 if ns.get("neg_axis") else 0)
    else:
        lead = int(ns.get("lead", 1))
        if m % lead:
            lead = 1
        t = base.reshape(lead, m // lead, d)
        pos = ns.get("pos", 0) % 3
        arr = np.ascontiguousarray(np.moveaxis(t, -1, pos))
        ax = pos - 3 if ns.get("neg_axis") else pos
    arr = _relayout(arr.astype(ns.get("dtype", "float64")), ns.get("layout", "c"))
    if not arr.flags.c_contiguous:
        res.probe("no_stats_non_contiguous")
    inp = arr.copy()
    arr.flags.writeable = False
    res.probe("no_stats_tensor")
    inst = _post.Standardize(norm_var=bool(ns.get("norm_var", True)))
    if ns.get("abort_first"):
        # fault: the caller runs with warnings as errors and the first tensor has a constant coefficient, so the
        # zero-variance warning aborts that apply. Whatever it does, the instance must still have no statistics.
        res.probe("nostats_after_aborted_apply")
        res.fault("apply_aborted_by_warning")
        bad = arr.copy()
        bad_ax = ax % bad.ndim
        sl = [slice(None)] * bad.ndim
        sl[bad_ax] = 0
        bad[tuple(sl)] = 0.25
        with warnings.catch_warnings():
            warnings.simplefilter("error")
            try:
                inst.apply(bad, ax)
            except Exception:
                pass
        if bool(inst.have_stats):
            res.violate("HAVE_STATS", "have_stats is true although nothing was ever accumulated (after an apply without "
                        "statistics was aborted by a warning raised as an error)", phase="nostats", **facts)
            return
    try:
        with warnings.catch_warnings():
            warnings.simplefilter("ignore")
            out = inst.apply(arr, ax)
    except Exception as e:
        res.violate("RAISES", "apply without statistics on a %s tensor (axis %d) raised %s: %s" % (
            arr.shape, ax, type(e).__name__, e), phase="nostats", **facts)
        return
    tr.log("nostats", out)
    if out.dtype != np.float64 or out.shape != inp.shape:
        res.violate("DTYPE", "no-statistics apply returned %s %s" % (out.dtype, out.shape), phase="nostats", **facts)
        return
    other = tuple(i for i in range(out.ndim) if i != ax % out.ndim)
    mu = out.mean(axis=other)
    if np.max(np.abs(mu)) > 1e-9 * 10:
        res.violate("NOSTATS", "no-statistics result has per-coefficient mean %r, expected 0" % mu.tolist(),
                    phase="nostats", **facts)
        return
    if ns.get("norm_var", True):
        vv = out.var(axis=other)
        if np.max(np.abs(vv - 1.0)) > 1e-6:
            res.violate("NOSTATS", "no-statistics result has per-coefficient variance %r, expected 1" % vv.tolist(),
                        phase="nostats", **facts)
            return
    else:
        x64 = inp.astype(np.float64)
        exp = x64 - x64.mean(axis=other, keepdims=True)
        if np.max(np.abs(out - exp)) > 1e-9 * (1 + np.abs(x64).max()):
            res.violate("NOSTATS", "no-statistics result (norm_var False) is not x - mean", phase="nostats", **facts)


def _check_nostats_single(ns, d, res, tr, facts):
    """Without statistics a tensor that holds ONE feature vector cannot be standardised: with norm_var it is refused
    (ValueError), without it the documented result is the zero vector - float64 like every result."""
    res.probe("no_stats_single_vector_tensor")
    sg = ns["single"]
    shape = [1] * int(sg["ndim"])
    pos = int(sg["pos"]) % len(shape)
    shape[pos] = d
    arr = (np.arange(d, dtype=np.float64) * 1.5 - 2.0).reshape(shape).astype(sg.get("dtype", "float64"))
    inst = _post.Standardize(norm_var=bool(sg.get("norm_var", False)))
    try:
        with warnings.catch_warnings():
            warnings.simplefilter("ignore")
            out = inst.apply(arr, pos - len(shape) if sg.get("neg_axis") else pos, bool(sg.get("in_place")))
    except ValueError:
        return
    except Exception as e:
        res.violate("RAISES", "apply of a single-vector tensor without statistics raised %s: %s" % (type(e).__name__, e),
                    phase="nostats", **facts)
        return
    tr.log("nostats_single", out)
    if not isinstance(out, np.ndarray) or out.dtype != np.float64:
        res.violate("DTYPE", "apply without statistics on a %s tensor of shape %s (in_place=%s) returned %s, expected float64"
                    % (arr.dtype, arr.shape, sg.get("in_place"), getattr(out, "dtype", type(out))), phase="nostats", **facts)


def minimise(scn, test, budget):
    scn = copy.deepcopy(scn)
    if not test(scn):
        return scn
    for key, val in (("prior_other", None), ("nostats", None), ("midway", False)):
        if scn.get(key):
            c = copy.deepcopy(scn)
            c[key] = val
            if budget.take() and test(c):
                scn = c
    if scn["queries"]:
        c = copy.deepcopy(scn)
        c["queries"] = []
        if budget.take() and test(c):
            scn = c
            c = copy.deepcopy(scn)
            c["histories"] = []
            if budget.take() and test(c):
                return c
    qs = shrink.ddmin_list(scn["queries"], lambda l: test(dict(scn, queries=l)), budget) if scn["queries"] else []
    scn["queries"] = qs
    hs = shrink.ddmin_list(scn["histories"], lambda l: bool(l) and test(dict(scn, histories=l)), budget)
    scn["histories"] = hs
    # drop rejected calls, then parts (dropping a part removes its rows from that history only)
    for hi in range(len(scn["histories"])):
        def with_parts(parts, hi=hi):
            c = copy.deepcopy(scn)
            c["histories"][hi] = parts
            return c
        parts = shrink.ddmin_list(scn["histories"][hi], lambda l: test(with_parts(l)), budget)
        scn = with_parts(parts)
    # plain memory layout, plain dtype where the violation does not need them
    def items(c):
        for h in c["histories"]:
            for part in h:
                yield part
        for q in c["queries"]:
            yield q
        if c.get("nostats"):
            yield c["nostats"]
    for i, it in enumerate(list(items(scn))):
        for key, val in (("layout", "c"), ("lead", 1), ("dtype", "float64")):
            if it.get(key, val) != val and "reject" not in it:
                c = copy.deepcopy(scn)
                list(items(c))[i][key] = val
                if budget.take() and test(c):
                    scn = c
    return scn
