"""C17 - saved normalisation statistics reload to the same transform.

System: real Standardize.save / Standardize(rfilename=...) on a real scratch directory.
Environment: a caller issuing a seeded history of accumulate / save / load operations over a
few accumulators and paths, where a path may already hold durable content (earlier saves of
the same or another accumulator, archives written by plain numpy with unrelated entries,
compressed archives). Reference model: a dict path -> {entries} plus the live accumulators."""
import copy
import hashlib
import os
import shutil
import tempfile
import warnings

import numpy as np

from sim.core import env, shrink
from sim.core.trace import Result, Trace
from sim.statsim import model

from pydrobert.speech import post as _post

PROPERTY = "C17"
LEVEL = "exploration"
TIERS = {
    "quick": {"runs": 80000, "budget": 70, "selftest": 64, "shrink_budget": 300},
    "thorough": {"runs": 200000, "budget": 1200, "selftest": 2000, "shrink_budget": 1000},
}
RULE = (
    "Each run draws 2-12 operations over up to 3 accumulators and 8 paths (.npy, .npz, raw binary; some below "
    "directories whose names contain '.npz' / '.npy'): "
    "accumulate (float32/float64, any sign and scale, vectors or matrices), save (key / compress / overwrite "
    "varied), load-and-apply, save-with-no-statistics, and pre-seeding of a path with prior durable content "
    "(numpy.savez / savez_compressed archives with unrelated entries, numpy.save files, raw bytes); some runs start "
    "with two data sets of equal length saved one after the other to the same target / key. "
    "Non-trivial = at least one load after a save. Distinct = distinct signatures (sequence of operation kinds "
    "with path kind, key/compress/overwrite flags and whether the path already existed)."
)
COMPONENTS = {
    "Standardize.save / Standardize(rfilename=...) / apply": "real",
    "pydrobert.speech.util.read_signal": "real",
    "numpy.save / savez / load / tofile / fromfile": "real (dependency)",
    "file system (per-run scratch directory)": "real",
    "caller (history of saves, prior durable content)": "stub (simulator)",
}
ASSUMPTIONS = [
    "overwrite polarity is the one in Standardize.save's docstring: overwrite=False keeps the other entries of an "
    "existing archive, overwrite=True leaves exactly the saved entry; a key-less save uses the first unused arr_<n>",
    "a .npz path is only pre-seeded with valid numpy archives, a .npy path with valid .npy files (damaged prior "
    "content is outside the statement)",
    "raw binary statistics are loaded with force_as='file' (no suffix to infer from)",
    "no crash is injected inside numpy's writers: the statement is about sequences of completed saves",
    "sampling, not proof",
]
PROBES = [
    "second_save_same_npz", "save_accumulate_save_load", "negative_sum_saved", "keyless_after_keyless",
    "overwrite_false_existing", "overwrite_true_existing", "preseeded_archive", "compressed", "raw_reload",
    "npy_reload", "npz_reload", "save_empty", "cross_accumulator_path", "suffix_text_in_directory",
    "accumulate_on_loaded_instance", "save_with_warnings_as_errors", "save_empty_after_loading_zero_count",
    "loaded_with_other_norm_var", "overwrite_flag_on_npy_or_raw",
    "same_count_other_data_replaces_entry",
]
FAULT_KINDS = ["prior_content_numpy_archive", "prior_content_compressed_archive", "prior_content_own_save",
               "prior_content_npy", "prior_content_raw"]

# targets, some below directories whose names contain the suffix text (the path is data too)
PATHS = ["s0.npy", "s1.npz", "s2.npz", "s3.bin", "s4stats", "exp.npz.d/s5.npz", "feats.npy/s6.npy", "run.1/raw.npz.stats",
         "S7.NPY", "s8.Npz"]  # the last two are raw binary: only the exact suffixes '.npy' / '.npz' select numpy formats


def _kind(p):
    n = PATHS[p]
    return "npy" if n.endswith(".npy") else ("npz" if n.endswith(".npz") else "raw")


def generate(rng, tier, k):
    d = rng.choice((1, 2, 3, 5, 8))
    nacc = rng.choice((1, 1, 2, 3))
    accs = []
    for a in range(nacc):
        regime = rng.choice(("exact", "gauss", "gauss", "const"))
        rec = {"regime": regime, "n": rng.choice((rng.randrange(2, 40), rng.randrange(2, 40), rng.randrange(40, 200))),
               "d": d, "seed": rng.randrange(1 << 30)}
        if regime == "const":
            rec["values"] = [rng.choice((0.3, -11.512925464970229, -13.7, 0.1, 1e-3, 7.0, 0.0, 0.0)) for _ in range(d)]
            rec["free_cols"] = [j for j in range(d) if rng.random() < 0.4]
        elif regime == "exact":
            rec["spread"] = rng.choice((512, 4096))
            rec["offsets"] = [rng.choice((0, -20000, -3000, 15000)) for _ in range(d)]
        else:
            rec["sigma"] = rng.choice((0.01, 1.0, 50.0))
            rec["means"] = [rng.choice((0.0, -12.0, -3.0, 40.0)) * rec["sigma"] for _ in range(d)]
        accs.append({"data": rec, "norm_var": rng.random() < 0.7})
    ops = []
    nops = rng.randrange(2, 13)
    used = {a: 0 for a in range(nacc)}
    saved = {}  # path -> list of keys saved (generation-time guess, only to bias loads)
    if nacc >= 2 and rng.random() < 0.15:
        # two different data sets with the SAME number of frames (features re-extracted from the same audio) saved one
        # after the other to the same target / key: the second save must replace the first
        m = rng.choice((2, 3, 5, 8))
        m = min([m] + [accs[a]["data"]["n"] for a in (0, 1)])
        pz = rng.choice([i for i in range(len(PATHS))])
        key = rng.choice((None, "k1", "stats", "arr_0")) if _kind(pz) == "npz" else None
        ow = rng.choice((True, False, False, None))
        for a in (0, 1):
            ops.append({"op": "acc", "a": a, "lo": 0, "hi": m, "form": rng.choice(("vec", "md", "dm")), "dtype": "float64"})
            used[a] = m
        for a in (0, 1):
            op = {"op": "save", "a": a, "p": pz, "werr": False}
            if _kind(pz) == "npz":
                op.update(key=key, compress=rng.random() < 0.3, overwrite=ow)
            ops.append(op)
            saved.setdefault(pz, []).append(key)
        ops.append({"op": "load", "p": pz, "which": "last", "pick": 0, "then_accumulate": False, "other_norm_var": False})
    for _ in range(nops):
        r = rng.random()
        a = rng.randrange(nacc)
        if r < 0.3 or used[a] == 0 and r < 0.6:
            n = accs[a]["data"]["n"]
            if used[a] >= n:
                continue
            m = min(n - used[a], rng.choice((1, 1, 2, 3, 5, 8)))
            if used[a] == 0:
                m = max(2, min(m, n))
            ops.append({"op": "acc", "a": a, "lo": used[a], "hi": used[a] + m,
                        "form": rng.choice(("vec", "md", "dm")), "dtype": rng.choice(("float64", "float64", "float32"))})
            used[a] += m
        elif r < 0.62:
            p = rng.randrange(len(PATHS))
            op = {"op": "save", "a": a, "p": p, "werr": rng.random() < 0.15}
            if _kind(p) == "npz":
                op["key"] = rng.choice((None, None, None, "k1", "stats", "arr_0", "arr_1", "arr_10"))
                op["compress"] = rng.random() < 0.35
                op["overwrite"] = rng.choice((True, False, None))  # None = use the default
            elif rng.random() < 0.3:
                # the flags are accepted (and documented as irrelevant) for .npy and raw targets too
                op["overwrite"] = rng.choice((True, False))
                op["compress"] = rng.random() < 0.3
            ops.append(op)
            saved.setdefault(p, []).append(op.get("key"))
        elif r < 0.85:
            cands = list(saved) or [rng.randrange(len(PATHS))]
            p = rng.choice(cands)
            ops.append({"op": "load", "p": p, "which": rng.choice(("last", "last", "any")), "pick": rng.randrange(1 << 16),
                        "then_accumulate": rng.random() < 0.3, "other_norm_var": rng.random() < 0.3})
        elif r < 0.9:
            ops.append({"op": "save_empty", "p": rng.randrange(len(PATHS)), "via_zero_count_file": rng.random() < 0.4})
        else:
            p = rng.randrange(len(PATHS))
            kind = _kind(p)
            if kind == "npz":
                ent = rng.sample(["other", "arr_0", "arr_1", "arr_2", "k1", "zz"], rng.randrange(1, 4))
                if rng.random() < 0.3:
                    # a run of default keys plus a two-digit one (first unused arr_<n> is numeric, not lexicographic)
                    ent = ["arr_%d" % i for i in range(rng.randrange(1, 5))] + ["arr_10"] + rng.sample(["arr_11", "zz"], 1)
                ops.append({"op": "preseed", "p": p, "how": rng.choice(("savez", "savez", "savez_compressed")),
                            "entries": ent, "seed": rng.randrange(1 << 30)})
            elif kind == "npy":
                ops.append({"op": "preseed", "p": p, "how": "npy", "seed": rng.randrange(1 << 30)})
            else:
                ops.append({"op": "preseed", "p": p, "how": "raw", "nbytes": rng.choice((0, 7, 16 * (d + 1), 16 * (d + 1) + 8, 400)),
                            "seed": rng.randrange(1 << 30)})
    return {"d": d, "accs": accs, "ops": ops}


def _sha(a):
    a = np.ascontiguousarray(a)
    return a.dtype.str + str(a.shape) + hashlib.sha1(a.tobytes()).hexdigest()


def _probe_inputs(d):
    v = np.linspace(-3.0, 7.0, d)
    t = np.stack([v, v * 0.5 - 1.0, np.arange(d) * 1.25])
    return v, t


def _fingerprint(inst, d):
    """What apply() does with this instance, observed on fixed probe inputs (bitwise)."""
    v, t = _probe_inputs(d)
    with warnings.catch_warnings():
        warnings.simplefilter("ignore")
        a = inst.apply(v)
        b = inst.apply(t, axis=-1)
    return _sha(a) + "|" + _sha(b), (a, b)


def _list_npz(path):
    with np.load(path) as z:
        return {k: np.array(z[k]) for k in z.files}


def execute(scn, keep_trace=False):
    res = Result()
    tr = Trace(keep_trace)
    d = int(scn["d"])
    base = tempfile.mkdtemp(prefix="verif-c17-", dir=env.scratch_base())
    try:
        _run(scn, d, base, res, tr)
    finally:
        shutil.rmtree(base, ignore_errors=True)
    res.digest = tr.digest()
    res.events = tr.n
    res.trace = tr
    return res


def _run(scn, d, base, res, tr):
    for rel in PATHS:
        if "/" in rel:
            os.makedirs(os.path.join(base, os.path.dirname(rel)), exist_ok=True)
    accs = []
    datas = []
    sibs = []  # fed identically, but constructed with the OTHER norm_var: the saved file must serve both kinds of loader
    for a in scn["accs"]:
        accs.append(_post.Standardize(norm_var=bool(a.get("norm_var", True))))
        sibs.append(_post.Standardize(norm_var=not bool(a.get("norm_var", True))))
        datas.append(model.make_data(a["data"]))
    nrows = [0] * len(accs)
    # directory model: p -> {"kind": "npy"|"npz"|"raw"|"foreign", "entries": {key: ("stats", fp, acc) | ("foreign", sha)}}
    dirm = {}
    sig = []
    facts = {}
    saves_on = {}
    acc_since_save = {}
    loaded_after_save = False

    def fail(cls, detail, **kw):
        f = dict(facts)
        f.update(kw)
        res.violate(cls, detail, **f)

    for oi, op in enumerate(scn["ops"]):
        kind = op["op"]
        if kind == "acc":
            a = op["a"]
            if a >= len(accs):
                continue
            rows = datas[a][op["lo"] : op["hi"]]
            if rows.shape[0] == 0:
                continue
            rows = rows.astype(op.get("dtype", "float64"))
            form = op.get("form", "md")
            try:
                for inst_ in (accs[a], sibs[a]):
                    if form == "vec":
                        for r in rows:
                            inst_.accumulate(r)
                    elif form == "dm":
                        inst_.accumulate(np.ascontiguousarray(rows.T), axis=0)
                    else:
                        inst_.accumulate(rows)
            except Exception as e:
                fail("RAISES", "accumulate raised %s: %s" % (type(e).__name__, e), phase="accumulate")
                return
            nrows[a] += rows.shape[0]
            acc_since_save[a] = True
            tr.log("acc", a, rows.shape)
            sig.append("A")
        elif kind == "preseed":
            p = op["p"]
            path = os.path.join(base, PATHS[p])
            g = model.np_rng(op["seed"])
            how = op["how"]
            if how in ("savez", "savez_compressed"):
                ent = {}
                for name in op["entries"]:
                    ent[name] = g.standard_normal((g.integers(1, 4), g.integers(1, 5))).astype(
                        ["float64", "float32", "int64"][int(g.integers(0, 3))])
                (np.savez if how == "savez" else np.savez_compressed)(path, **ent)
                dirm[p] = {"kind": "npz", "entries": {k: ("foreign", _sha(v)) for k, v in ent.items()}}
                res.fault("prior_content_numpy_archive" if how == "savez" else "prior_content_compressed_archive")
                res.probe("preseeded_archive")
            elif how == "npy":
                np.save(path, g.standard_normal((3, 2)))
                dirm[p] = {"kind": "npy", "entries": {}}
                res.fault("prior_content_npy")
            else:
                with open(path, "wb") as f:
                    f.write(g.bytes(int(op["nbytes"])))
                dirm[p] = {"kind": "raw", "entries": {}}
                res.fault("prior_content_raw")
            tr.log("preseed", p, how)
            sig.append("P%s" % _kind(p)[0:2])
        elif kind == "save_empty":
            p = op["p"]
            path = os.path.join(base, PATHS[p])
            existed = os.path.exists(path)
            before = open(path, "rb").read() if existed else None
            inst = _post.Standardize()
            if op.get("via_zero_count_file"):
                # an instance whose statistics were LOADED from a file that holds a zero count has accumulated nothing
                res.probe("save_empty_after_loading_zero_count")
                zp = os.path.join(base, "zero_count.npy")
                np.save(zp, np.zeros((2, d + 1)))
                try:
                    inst = _post.Standardize(rfilename=zp)
                except Exception:
                    inst = _post.Standardize()
            res.probe("save_empty")
            try:
                inst.save(path)
            except ValueError:
                pass
            except Exception as e:
                fail("SAVE_EMPTY", "save with no statistics raised %s, not ValueError" % type(e).__name__, phase="save_empty")
                return
            else:
                fail("SAVE_EMPTY", "save with no accumulated statistics did not raise", phase="save_empty")
                return
            after = open(path, "rb").read() if os.path.exists(path) else None
            if after != before:
                fail("SAVE_EMPTY", "refused save created or changed %s" % PATHS[p], phase="save_empty")
                return
            tr.log("save_empty", p)
            sig.append("E")
        elif kind == "save":
            a, p = op["a"], op["p"]
            if a >= len(accs):
                continue
            path = os.path.join(base, PATHS[p])
            pk = _kind(p)
            existed = os.path.exists(path)
            if nrows[a] == 0:
                # nothing accumulated yet: this is the refused case
                try:
                    accs[a].save(path)
                except ValueError:
                    continue
                except Exception as e:
                    fail("SAVE_EMPTY", "save with no statistics raised %s, not ValueError" % type(e).__name__,
                         phase="save_empty")
                    return
                fail("SAVE_EMPTY", "save with no accumulated statistics did not raise", phase="save_empty")
                return
            fp, _ = _fingerprint(accs[a], d)
            try:
                fp_sib, _ = _fingerprint(sibs[a], d)
            except Exception:
                fp_sib = None
            if "/" in PATHS[p]:
                res.probe("suffix_text_in_directory")
            kw = {}
            key = op.get("key")
            if pk == "npz":
                if key is not None:
                    kw["key"] = key
                if op.get("compress"):
                    kw["compress"] = True
                    res.probe("compressed")
                if op.get("overwrite") is not None:
                    kw["overwrite"] = bool(op["overwrite"])
            else:
                if op.get("overwrite") is not None:
                    kw["overwrite"] = bool(op["overwrite"])
                    res.probe("overwrite_flag_on_npy_or_raw")
                if op.get("compress"):
                    kw["compress"] = True
            overwrite = kw.get("overwrite", True)
            prior = dirm.get(p)
            if existed:
                if prior and any(v[0] == "stats" for v in prior["entries"].values()):
                    res.fault("prior_content_own_save")
                    if any(v[0] == "stats" and v[2] != a for v in prior["entries"].values()):
                        res.probe("cross_accumulator_path")
                if pk == "npz":
                    res.probe("second_save_same_npz" if saves_on.get(p) else "overwrite_%s_existing" % str(overwrite).lower())
                    if saves_on.get(p):
                        res.probe("overwrite_%s_existing" % str(overwrite).lower())
            if datas[a][: nrows[a]].sum(axis=0).min() < 0:
                res.probe("negative_sum_saved")
            if scn["accs"][a]["data"]["regime"] == "const":
                res.probe("constant_coefficient_saved")
            if saves_on.get((p, a)) and acc_since_save.get(a):
                res.probe("save_accumulate_save_load")
            try:
                with warnings.catch_warnings():
                    # a caller that runs with warnings as errors: saving is silent on the unchanged tree
                    warnings.simplefilter("error" if op.get("werr") else "ignore")
                    if op.get("werr"):
                        res.probe("save_with_warnings_as_errors")
                    accs[a].save(path, **kw)
            except Exception as e:
                fail("SAVE_RAISES", "save(%s%s) onto %s raised %s: %s" % (
                    PATHS[p], "".join(", %s=%r" % kv for kv in sorted(kw.items())),
                    "an existing file" if existed else "a fresh path", type(e).__name__, e),
                    phase="save", target=pk, existed=existed)
                return
            tr.log("save", a, p, sorted(kw.items()))
            saves_on[p] = saves_on.get(p, 0) + 1
            saves_on[(p, a)] = True
            acc_since_save[a] = False
            sig.append("S%s%s%s%s%s" % (pk[0:2], "k" if key else "", "c" if kw.get("compress") else "",
                                        {True: "O", False: "o"}.get(kw.get("overwrite"), ""), "x" if existed else ""))
            if pk == "npz":
                old = dict(prior["entries"]) if (prior and prior["kind"] == "npz" and existed) else {}
                if overwrite:
                    kept = {}
                else:
                    kept = old
                if key is None:
                    n = 0
                    while "arr_%d" % n in kept:
                        n += 1
                    key_used = "arr_%d" % n
                    if n > 0:
                        res.probe("keyless_after_keyless")
                else:
                    key_used = key
                kept = dict(kept)
                pe = old.get(key_used)
                if pe and pe[0] == "stats" and pe[2] != a and nrows[pe[2]] == nrows[a] and pe[1] != fp:
                    res.probe("same_count_other_data_replaces_entry")
                kept[key_used] = ("stats", fp, a, bool(scn["accs"][a].get("norm_var", True)), fp_sib)
                dirm[p] = {"kind": "npz", "entries": kept, "last": key_used}
                # observe the archive with plain numpy
                try:
                    got = _list_npz(path)
                except Exception as e:
                    fail("ARCHIVE", "archive %s unreadable by numpy after save: %s" % (PATHS[p], e), phase="save", target=pk)
                    return
                if set(got) != set(kept):
                    fail("ARCHIVE_ENTRIES", "after save(key=%r, overwrite=%r) onto %s the archive holds %s, expected %s" % (
                        key, overwrite, "existing archive with %s" % sorted(old) if existed else "a fresh path",
                        sorted(got), sorted(kept)), phase="save", target=pk, existed=existed, overwrite=overwrite)
                    return
                for kk, vv in kept.items():
                    if vv[0] == "foreign" and _sha(got[kk]) != vv[1]:
                        fail("ARCHIVE_ENTRIES", "entry %r of the archive was altered by save" % kk, phase="save", target=pk)
                        return
            else:
                pe = (prior or {}).get("entries", {}).get(None) if existed else None
                if pe and pe[0] == "stats" and pe[2] != a and nrows[pe[2]] == nrows[a] and pe[1] != fp:
                    res.probe("same_count_other_data_replaces_entry")
                dirm[p] = {"kind": pk, "entries": {None: ("stats", fp, a, bool(scn["accs"][a].get("norm_var", True)), fp_sib)},
                           "last": None}
        elif kind == "load":
            p = op["p"]
            ent = dirm.get(p)
            if not ent:
                continue
            stats_keys = [k for k, v in ent["entries"].items() if v[0] == "stats"]
            if not stats_keys:
                continue
            if op.get("which") == "last" and ent.get("last") in stats_keys:
                key = ent["last"]
            else:
                key = sorted(stats_keys, key=lambda x: str(x))[op.get("pick", 0) % len(stats_keys)]
            _, fp, a, nv, fp_sib = ent["entries"][key]
            if op.get("other_norm_var") and fp_sib is not None:
                # load with the other norm_var than the saver had: must match the sibling that was fed identically
                res.probe("loaded_with_other_norm_var")
                nv, fp = (not nv), fp_sib
            path = os.path.join(base, PATHS[p])
            pk = _kind(p)
            kw = {}
            if pk == "npz":
                if key != "arr_0" or op.get("pick", 0) % 2:
                    kw["key"] = key
                res.probe("npz_reload")
            elif pk == "raw":
                kw["force_as"] = "file"
                res.probe("raw_reload")
            else:
                res.probe("npy_reload")
            try:
                with warnings.catch_warnings():
                    warnings.simplefilter("ignore")
                    inst = _post.Standardize(rfilename=path, norm_var=nv, **kw)
            except Exception as e:
                fail("LOAD_RAISES", "Standardize(rfilename=%s%s) raised %s: %s" % (
                    PATHS[p], "".join(", %s=%r" % kv for kv in sorted(kw.items())), type(e).__name__, e),
                    phase="load", target=pk)
                return
            try:
                fp2, _ = _fingerprint(inst, d)
            except Exception as e:
                fail("LOAD_RAISES", "apply of reloaded statistics raised %s: %s" % (type(e).__name__, e),
                     phase="load", target=pk)
                return
            tr.log("load", p, key, fp2)
            if fp2 != fp:
                fail("RELOAD_DIFFERS", "statistics reloaded from %s (key %r) give a different apply() than the "
                     "accumulator had when it was saved" % (PATHS[p], key), phase="load", target=pk)
                return
            loaded_after_save = True
            sig.append("L%s" % pk[0:2])
            if op.get("then_accumulate"):
                # the loaded instance goes on accumulating: the file (and any later load of it) must not notice
                res.probe("accumulate_on_loaded_instance")
                try:
                    inst.accumulate(np.full(d, 3.25))
                    inst.accumulate(np.arange(2 * d, dtype=np.float64).reshape(2, d) - 1.5)
                except Exception as e:
                    fail("RAISES", "accumulate on a loaded instance raised %s: %s" % (type(e).__name__, e), phase="load")
                    return
    res.signature = "".join(sig) if len(sig) < 3 else ",".join(sig)
    res.nontrivial = loaded_after_save


def minimise(scn, test, budget):
    scn = copy.deepcopy(scn)
    if not test(scn):
        return scn
    ops = shrink.ddmin_list(scn["ops"], lambda l: test(dict(scn, ops=l)), budget)
    scn["ops"] = ops
    for i, op in enumerate(scn["ops"]):
        for key, val in (("compress", False), ("key", None), ("overwrite", None), ("dtype", "float64"), ("form", "md")):
            if op.get(key) not in (None, val) or (key in op and op[key] is not val and val is None and op[key] is not None):
                c = copy.deepcopy(scn)
                c["ops"][i][key] = val
                if budget.take() and test(c):
                    scn = c
    return scn
