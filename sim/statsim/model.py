"""Exact reference model for Standardize: the multiset of accumulated vectors, with mean and
variance computed in rational arithmetic."""
from fractions import Fraction

import numpy as np

from sim.core.trace import np_rng


def make_data(rec):
    """n x d float64 data set from a recipe.

    regime "exact": entries are multiples of 2**-8 with |v| <= 2**8, so that (for n <= 1024) every
    partial sum and sum of squares is exact in float64 regardless of order or split.
    regime "gauss": generic Gaussian data with a bounded mean/sigma ratio."""
    n, d = int(rec["n"]), int(rec["d"])
    g = np_rng(rec["seed"])
    if rec["regime"] == "exact":
        spread = int(rec.get("spread", 4096))  # in units of 2**-8
        off = np.asarray(rec.get("offsets", [0] * d), dtype=np.int64)[:d]
        if len(off) < d:
            off = np.concatenate([off, np.zeros(d - len(off), dtype=np.int64)])
        q = g.integers(-spread, spread + 1, size=(n, d)) + off[None, :]
        q = np.clip(q, -(1 << 16), 1 << 16)
        if n >= 2:
            # guarantee a variance well away from zero in every coefficient
            same = np.abs(q[0] - q[1]) < 512
            q[1] = np.where(same, np.where(q[0] > 0, q[0] - 512, q[0] + 512), q[1])
        return q.astype(np.float64) / 256.0
    if rec["regime"] == "const":
        # some (or all) coefficients constant at values that are not exactly representable: floored log energies do
        # this in practice. Only used where the oracle does not need a healthy variance (C17: reload == original).
        vals = np.asarray(rec.get("values", [0.3] * d), dtype=np.float64)[:d]
        if len(vals) < d:
            vals = np.concatenate([vals, np.full(d - len(vals), -11.512925464970229)])
        x = np.repeat(vals[None, :], n, axis=0)
        free = [j for j in rec.get("free_cols", []) if j < d]
        if free:
            x[:, free] = g.standard_normal((n, len(free))) * 2.0 - 1.0
        return x
    sig = float(rec.get("sigma", 1.0))
    mu = np.asarray(rec.get("means", [0.0] * d), dtype=np.float64)[:d]
    if len(mu) < d:
        mu = np.concatenate([mu, np.zeros(d - len(mu))])
    x = g.standard_normal((n, d)) * sig + mu[None, :]
    if n >= 2:
        x[1] = x[0] + sig * np.where(np.arange(d) % 2 == 0, 1.5, -1.5)
    return x


class ExactStats(object):
    """sum, sum of squares and count of accumulated vectors, exactly."""

    def __init__(self, d=None):
        self.d = d
        self.count = 0
        self.s = None
        self.ss = None

    def add_rows(self, rows):
        rows = np.asarray(rows, dtype=np.float64)
        if rows.ndim == 1:
            rows = rows[None, :]
        if self.d is None:
            self.d = rows.shape[1]
        assert rows.shape[1] == self.d
        if self.s is None:
            self.s = [Fraction(0)] * self.d
            self.ss = [Fraction(0)] * self.d
        for r in rows:
            for j in range(self.d):
                f = Fraction(float(r[j]))
                self.s[j] += f
                self.ss[j] += f * f
        self.count += rows.shape[0]

    def mean_var(self):
        n = self.count
        mean = [s / n for s in self.s]
        var = [ss / n - m * m for ss, m in zip(self.ss, mean)]
        return mean, var

    def reference(self, x, axis, norm_var):
        """Exact-model output (float64) and a per-coefficient conditioning number E[x^2]/var."""
        mean, var = self.mean_var()
        m = np.array([float(v) for v in mean])
        v = np.array([float(q) for q in var])
        ex2 = np.array([float(ss / self.count) for ss in self.ss])
        x = np.asarray(x, dtype=np.float64)
        shp = [1] * x.ndim
        shp[axis] = -1
        if x.ndim == 1:
            shp = [-1]
        if norm_var:
            sd = np.sqrt(v)
            out = (x - m.reshape(shp)) / sd.reshape(shp)
        else:
            out = x - m.reshape(shp)
        cond = ex2 / np.where(v > 0, v, 1.0)
        return out, m, v, cond
