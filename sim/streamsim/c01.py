"""C01 - chunked streaming equals whole-signal computation, for every chunking.

System: one real frame computer. Simulated environment: an audio source that owns the whole
signal and delivers it as a seeded schedule of compute_chunk calls (sizes, empties, memory
kind), then end-of-stream (finalize). Oracle: compute_full on a pristine twin."""
import copy

import numpy as np

from sim.core import shrink
from sim.core.trace import Result, Trace
from sim.streamsim import configs, source

from pydrobert.speech import compute as _compute

PROPERTY = "C01"
LEVEL = "exploration"
TIERS = {
    "quick": {"runs": 120000, "budget": 70, "selftest": 64, "shrink_budget": 400},
    "thorough": {"runs": 600000, "budget": 1500, "selftest": 2000, "shrink_budget": 1500},
}
RULE = (
    "Each run draws (computer configuration inside the stated domain, signal recipe, delivery schedule = "
    "composition of N into chunk lengths with interleaved empty chunks and per-chunk memory kind, 0-3 "
    "chunk_size values for frame_by_frame_calculation) from one PRNG seeded by sha256(C01:VERIF_SEED:index); in 12 % "
    "of the runs a second live computer of the same configuration is stepped between the calls (co-tenant). "
    "A run is non-trivial when the signal is cut at least once (>= 2 non-empty deliveries) and compute_full "
    "yields at least one frame, or when a named rare-condition probe fired. Distinct = distinct schedule "
    "signatures (computer kind, frame style, kaldi_shift, dtype, N class relative to S/2, L/2+1, L, and the "
    "run-length-collapsed sequence of delivery length classes 0/1/<S/~S/<L/~L/>L)."
)
COMPONENTS = {
    "ShortTimeFourierTransformFrameComputer / ShortIntegrationFrameComputer": "real",
    "filter banks, window functions, scaling functions": "real",
    "frame_by_frame_calculation": "real",
    "numpy.fft": "real (dependency)",
    "audio source (delivery schedule, end of stream)": "stub (simulator)",
}
ASSUMPTIONS = [
    "scipy is absent in this sandbox: the fftpack branches of both computers never run",
    "signal dtypes are float32 and float64 only",
    "round-off tolerance: linear-domain |a-b| <= r*max(|a|,|b|) + s*max|F|, (r,s)=(1e-7,1e-10) for float64, (1e-4,1e-5) for float32",
    "a source may recycle its chunk buffer as soon as compute_chunk has returned (memory kind 'scratch'): a streaming "
    "computer must have copied what it still needs - the unchanged tree does",
    "sampling, not proof: a clean batch is evidence for the explored schedules only",
]
PROBES = [
    "first_frame_split", "stft_zero_frame_deliveries_ge3", "finalize_pad_exceeds_remainder", "n_in_short_gap",
    "si_multi_block_delivery", "si_sub_block_delivery", "si_skip_across_deliveries", "empty_first", "empty_last",
    "n_zero", "no_deliveries", "long_recording", "whole_signal_strided", "co_tenant_between_chunks",
]
FAULT_KINDS = ["empty_delivery", "single_sample_delivery", "readonly_delivery", "strided_delivery",
               "recycled_buffer_delivery", "byteswapped_delivery"]


def warmup(tier=None):
    pass


def _generate_long(rng):
    """A long recording (around 2**16 or 2**20 samples) cut into a few large chunks: block-wise shortcuts that only
    show beyond a power-of-two size. Kept cheap: coarse frame shift, one or two filters."""
    for _ in range(50):
        cfg, comp, discarded = configs.gen_config(rng, rng.choice(("stft", "stft", "si")))
        L, S, block = configs.hints(comp)
        if cfg["computer"] == "stft" and S >= 60:
            break
        if cfg["computer"] == "si" and S >= 12 and cfg["bank"]["num_filts"] <= 2:
            break
    else:
        return None
    big = rng.choice((1 << 16, 1 << 16, 1 << 20)) if cfg["computer"] == "stft" else (1 << 16)
    n = big + rng.choice((-1, 0, 1, rng.randrange(2, 3000)))
    cuts = sorted(set(rng.choice((big, big - 1, big + 1, rng.randrange(1, n), 1 << 15, 1 << 10)) for _ in range(rng.randrange(0, 4))))
    lens, prev = [], 0
    for c in cuts:
        if 0 < c < n and c > prev:
            lens.append(c - prev)
            prev = c
    lens.append(n - prev)
    sig = {"kind": rng.choice(("noise", "impulses")), "seed": rng.randrange(1 << 30), "amp": 1.0,
           "dtype": rng.choice(("float64", "float32"))}
    return {"cfg": cfg, "signal": sig, "deliveries": [[int(k), "ro"] for k in lens],
            "fbf_sizes": [int(rng.choice((1 << 16, 1 << 20, 50000)))] if rng.random() < 0.5 else [], "long": True,
            "discarded_configs": discarded}


def generate(rng, tier, k):
    if rng.random() < 0.0012:
        scn = _generate_long(rng)
        if scn is not None:
            return scn
    kind = None
    cfg, comp, discarded = configs.gen_config(rng, kind)
    L, S, block = configs.hints(comp)
    first = 0
    n = source.gen_lengths(rng, L, S, block if cfg["computer"] == "si" else None, first)
    dl = source.gen_deliveries(rng, n, L, S, block if cfg["computer"] == "si" else None)
    sig = {
        "kind": rng.choice(("noise", "noise", "noise", "noise", "impulses", "ramp", "const", "click")),
        "seed": rng.randrange(1 << 30),
        "amp": rng.choice((1e-3, 1.0, 1.0, 1e2)),
        "dtype": rng.choice(("float64", "float64", "float32")),
    }
    nf = rng.choice((0, 1, 1, 2, 3))
    fbf = [int(rng.choice((1, 2, 3, 5, 7, 13, S, L, max(1, S - 1), L + 1, 97, 1024))) for _ in range(nf)]
    # keep a chunk_size of 1 for long signals out (cost), the delivery schedule covers it
    fbf = [c if (n // max(1, c)) <= 400 else max(c, n // 400 + 1) for c in fbf]
    return {"cfg": cfg, "signal": sig, "deliveries": dl, "fbf_sizes": fbf, "discarded_configs": discarded,
            "full_strided": rng.random() < 0.15,
            # a second live computer of the same configuration, stepped between this one's calls (seed of its schedule)
            "co_tenant": rng.randrange(1, 1 << 30) if rng.random() < 0.12 else None}


def _tol(dtype):
    return (1e-7, 1e-10) if dtype == "float64" else (1e-4, 1e-5)


def _lin(a, use_log):
    a = np.asarray(a, dtype=np.float64)
    if use_log:
        with np.errstate(over="ignore"):
            return np.exp(a)
    return a


def compare(F, G, use_log, dtype):
    """None if equal up to round-off, else (kind, detail)."""
    if G.ndim != 2 or F.ndim != 2 or F.shape != G.shape:
        return ("SHAPE", "compute_full %s vs streamed %s" % (F.shape, G.shape))
    if F.size == 0:
        return None
    r, s = _tol(dtype)
    a, b = _lin(F, use_log), _lin(G, use_log)
    fa, fb = np.isfinite(a), np.isfinite(b)
    if not np.array_equal(fa, fb):
        return ("VALUES", "non-finite pattern differs")
    if not fa.all():
        if not np.array_equal(a[~fa], b[~fb], equal_nan=True):
            return ("VALUES", "non-finite values differ")
    if not fa.any():
        return None
    am, bm = np.where(fa, a, 0.0), np.where(fb, b, 0.0)
    scale = float(np.max(np.abs(am)))
    err = np.abs(am - bm)
    bound = r * np.maximum(np.abs(am), np.abs(bm)) + s * scale
    bad = err > bound
    if bad.any():
        i = np.unravel_index(int(np.argmax(err - bound)), err.shape)
        return ("VALUES", "frame %d coeff %d: full=%r streamed=%r (linear %r vs %r), %d/%d entries differ" % (
            i[0], i[1], float(F[i]), float(G[i]), float(am[i]), float(bm[i]), int(bad.sum()), bad.size))
    return None


def _lenclass(k, L, S):
    if k == 0:
        return "0"
    if k == 1:
        return "1"
    if k < S - 1:
        return "<S"
    if k <= S + 1:
        return "S"
    if k < L - 1:
        return "<L"
    if k <= L + 1:
        return "L"
    return ">L"


def _nclass(n, L, S):
    if n == 0:
        return "0"
    if n < S // 2:
        return "<S/2"
    if n < L // 2 + 1:
        return "gap"
    if n < L:
        return "<L"
    if n <= L + S:
        return "L..L+S"
    return ">"


def signature(cfg, dtype, n, L, S, lens):
    seq = []
    for k in lens:
        c = _lenclass(k, L, S)
        if not seq or seq[-1] != c:
            seq.append(c)
    return "%s/%s/%s/%s/%s/%s" % (cfg["computer"], cfg.get("frame_style"), int(bool(cfg.get("kaldi_shift"))),
                                   dtype, _nclass(n, L, S), ",".join(seq))


def execute(scn, keep_trace=False):
    res = Result()
    tr = Trace(keep_trace)
    cfg = scn["cfg"]
    comp = configs.build(cfg)
    twin = configs.build(cfg)
    if not configs.in_domain(cfg, comp):
        # a minimiser candidate that left the stated domain: vacuous
        res.digest = tr.digest()
        res.signature = "out-of-domain"
        return res
    L, S, block = configs.hints(comp)
    lens = [int(d[0]) for d in scn["deliveries"]]
    n = sum(lens)
    rec = dict(scn["signal"])
    rec["n"] = n
    x = source.make_signal(rec)
    dtype = rec.get("dtype", "float64")
    xro = x.view()
    xro.flags.writeable = False
    ncoef = comp.num_coeffs
    use_log = cfg.get("use_log", True)
    style = comp.frame_style
    facts = dict(computer=cfg["computer"], style=style, kaldi=bool(cfg.get("kaldi_shift", False)), dtype=dtype,
                 short_gap=bool(S // 2 <= n < L // 2 + 1))
    tr.log("cfg", L, S, ncoef, n, dtype)

    # oracle side (the whole signal may itself be a non-contiguous view, e.g. one channel of an interleaved recording)
    if scn.get("full_strided"):
        res.probe("whole_signal_strided")
        y = np.empty((n, 3), dtype=x.dtype)
        y[:, 1] = x
        y[:, 0] = -1.5
        y[:, 2] = 9.25
        xro = y[:, 1]
        xro.flags.writeable = False
    if scn["deliveries"] and all(d[1] == "swapped" for d in scn["deliveries"]) and not scn.get("full_strided"):
        xro = x.astype(x.dtype.newbyteorder())
        xro.flags.writeable = False
    try:
        F = twin.compute_full(xro)
    except Exception as e:
        res.violate("RAISES", "compute_full raised %s: %s" % (type(e).__name__, e), phase="compute_full", **facts)
        tr.log("full_raises", e)
        res.digest = tr.digest()
        res.events = tr.n
        res.signature = signature(cfg, dtype, n, L, S, lens)
        res.nontrivial = True
        res.trace = tr
        return res
    tr.log("full", F)

    # probes on the schedule
    nonempty = [k for k in lens if k]
    if scn.get("long"):
        res.probe("long_recording")
    if n == 0:
        res.probe("n_zero")
    if not lens:
        res.probe("no_deliveries")
    if lens and lens[0] == 0:
        res.probe("empty_first")
    if lens and lens[-1] == 0:
        res.probe("empty_last")
    if S // 2 <= n < L // 2 + 1:
        res.probe("n_in_short_gap")
    if cfg["computer"] == "stft" and style == "centered" and nonempty and nonempty[0] < L // 2 + 1 <= n:
        res.probe("first_frame_split")

    parts = []
    a = 0
    zero_streak = 0
    skip_calls = 0
    failed = False
    tenant = None
    if scn.get("co_tenant"):
        tenant = source.CoTenant(configs.build(cfg), scn["co_tenant"], L, dtype)
    for i, (ln, mem) in enumerate(scn["deliveries"]):
        if tenant is not None and tenant.step():
            res.probe("co_tenant_between_chunks")
        ch = source.deliver(x, a, ln, mem)
        if ln == 0:
            res.fault("empty_delivery")
        elif ln == 1:
            res.fault("single_sample_delivery")
        if mem == "ro":
            res.fault("readonly_delivery")
        elif mem == "strided":
            res.fault("strided_delivery")
        elif mem == "scratch":
            res.fault("recycled_buffer_delivery")
        elif mem == "swapped":
            res.fault("byteswapped_delivery")
        try:
            skip_before = getattr(comp, "_skip", 0)
        except Exception:
            skip_before = 0
        try:
            out = comp.compute_chunk(ch)
        except Exception as e:
            res.violate("RAISES", "compute_chunk #%d (len %d) raised %s: %s" % (i, ln, type(e).__name__, e),
                        phase="compute_chunk", **facts)
            tr.log("chunk_raises", i, e)
            failed = True
            break
        source.recycle(ch, mem)
        a += ln
        tr.log("chunk", i, ln, out)
        if not isinstance(out, np.ndarray) or out.ndim != 2 or out.shape[1] != ncoef:
            res.violate("RETSHAPE", "compute_chunk #%d returned %s" % (i, getattr(out, "shape", type(out))),
                        phase="compute_chunk", **facts)
            failed = True
            break
        parts.append(out)
        # coverage probes (private attributes; never part of the oracle)
        try:
            if cfg["computer"] == "stft":
                if out.shape[0] == 0 and ln and comp._buf_len > 0:
                    zero_streak += 1
                    if zero_streak == 3:
                        res.probe("stft_zero_frame_deliveries_ge3")
                elif ln:
                    zero_streak = 0
            else:
                if block and ln >= 2 * block:
                    res.probe("si_multi_block_delivery")
                elif block and 0 < ln < block:
                    res.probe("si_sub_block_delivery")
                if skip_before and ln:
                    skip_calls += 1
                    if skip_calls == 2:
                        res.probe("si_skip_across_deliveries")
        except Exception:
            pass
    if not failed:
        try:
            if cfg["computer"] == "stft":
                bl = comp._buf_len
                nfr = bl + S // 2
                first = comp._first_frame
                pl = 0 if style == "causal" else (L // 2 - S // 2 if cfg.get("kaldi_shift") else (L + 1) // 2 - 1)
                if not first:
                    nfr -= pl
                    pl = 0
                nfr //= S
                if nfr >= 1 and (nfr - 1) * S + L - bl - pl > bl:
                    res.probe("finalize_pad_exceeds_remainder")
        except Exception:
            pass
        if tenant is not None:
            tenant.step()
        try:
            fin = comp.finalize()
        except Exception as e:
            res.violate("RAISES", "finalize raised %s: %s" % (type(e).__name__, e), phase="finalize", **facts)
            tr.log("finalize_raises", e)
            failed = True
        else:
            tr.log("finalize", fin)
            if not isinstance(fin, np.ndarray) or fin.ndim != 2 or fin.shape[1] != ncoef:
                res.violate("RETSHAPE", "finalize returned %s" % (getattr(fin, "shape", type(fin)),),
                            phase="finalize", **facts)
                failed = True
            else:
                parts.append(fin)
    if not failed:
        G = np.concatenate(parts)
        bad = compare(F, G, use_log, dtype)
        if bad:
            res.violate(bad[0], "streamed vs compute_full: %s; L=%d S=%d N=%d style=%s kaldi=%s lens=%s" % (
                bad[1], L, S, n, style, cfg.get("kaldi_shift"), lens[:40]), phase="stream", **facts)
        if not np.array_equal(x, source.make_signal(rec)):
            res.violate("INPUT_MODIFIED", "the source signal changed during streaming", phase="stream", **facts)

    # frame_by_frame_calculation for every requested chunk_size, each on a pristine computer
    for cs in scn.get("fbf_sizes", []):
        c2 = configs.build(cfg)
        try:
            H = _compute.frame_by_frame_calculation(c2, xro, int(cs))
        except Exception as e:
            res.violate("RAISES", "frame_by_frame_calculation(chunk_size=%d) raised %s: %s" % (
                cs, type(e).__name__, e), phase="fbf", **facts)
            tr.log("fbf_raises", cs, e)
            continue
        tr.log("fbf", cs, H)
        bad = compare(F, H, use_log, dtype)
        if bad:
            res.violate("FBF_" + bad[0], "frame_by_frame(chunk_size=%d) vs compute_full: %s; L=%d S=%d N=%d" % (
                cs, bad[1], L, S, n), phase="fbf", **facts)

    res.digest = tr.digest()
    res.events = tr.n
    res.signature = signature(cfg, dtype, n, L, S, lens)
    res.nontrivial = bool((len(nonempty) >= 2 and F.shape[0] >= 1) or res.probes)
    res.trace = tr
    return res


def minimise(scn, test, budget):
    scn = copy.deepcopy(scn)
    scn.pop("discarded_configs", None)
    if not test(scn):
        return scn
    # 1. drop the frame-by-frame part if it is not needed
    if scn.get("fbf_sizes"):
        cand = copy.deepcopy(scn)
        cand["fbf_sizes"] = []
        if budget.take() and test(cand):
            scn = cand
        else:
            for cs in list(scn["fbf_sizes"]):
                cand = copy.deepcopy(scn)
                cand["fbf_sizes"] = [cs]
                cand["deliveries"] = [[sum(d[0] for d in scn["deliveries"]), "ro"]]
                if budget.take() and test(cand):
                    scn = cand
                    break
    # 2. structural lattice
    for _ in range(2):
        for repl in configs.simplify_candidates(scn["cfg"]):
            cand = copy.deepcopy(scn)
            cand["cfg"].update(repl)
            if budget.take() and test(cand):
                scn = cand
    scn = shrink.try_replace(scn, ["signal", "dtype"], ["float64"], test, budget)
    scn = shrink.try_replace(scn, ["signal", "amp"], [1.0], test, budget)
    scn = shrink.try_replace(scn, ["signal", "kind"], ["ramp", "noise"], test, budget)

    # 3. ddmin over deliveries (dropping a delivery shortens the signal)
    def with_deliveries(dl):
        c = copy.deepcopy(scn)
        c["deliveries"] = dl
        return c

    dl = shrink.ddmin_list(scn["deliveries"], lambda d: test(with_deliveries(d)), budget)
    scn = with_deliveries(dl)
    # 4. merge neighbours
    i = 0
    while i + 1 < len(scn["deliveries"]) and budget.left > 0:
        d = scn["deliveries"]
        cand = with_deliveries(d[:i] + [[d[i][0] + d[i + 1][0], d[i][1]]] + d[i + 2 :])
        if budget.take() and test(cand):
            scn = cand
        else:
            i += 1
    # 5. shrink each delivery length
    for i in range(len(scn["deliveries"])):
        cur = scn["deliveries"][i][0]
        if cur <= 1:
            continue

        def t(v, i=i):
            c = copy.deepcopy(scn)
            c["deliveries"][i][0] = v
            return test(c)

        v = shrink.shrink_int(cur, 0, t, budget)
        scn["deliveries"][i][0] = v
    for i in range(len(scn["deliveries"])):
        if scn["deliveries"][i][1] != "ro":
            c = copy.deepcopy(scn)
            c["deliveries"][i][1] = "ro"
            if budget.take() and test(c):
                scn = c
    return scn
