"""C04 - a computer's output depends only on the current utterance.

System: one long-lived real computer. Environment: a caller issuing a seeded history of
utterances (streamed / compute_full / frame_by_frame), empty chunks, repeated finalizes and
*refused* calls (compute_full / frame_by_frame issued mid-utterance). Reference model: a
freshly constructed computer per utterance, driven by that utterance's deliveries only, plus
a three-line model of `started`."""
import copy
import hashlib

import numpy as np

from sim.core import shrink
from sim.core.trace import Result, Trace
from sim.streamsim import configs, source

from pydrobert.speech import compute as _compute

PROPERTY = "C04"
LEVEL = "exploration"
TIERS = {
    "quick": {"runs": 70000, "budget": 70, "selftest": 64, "shrink_budget": 400},
    "thorough": {"runs": 400000, "budget": 1500, "selftest": 2000, "shrink_budget": 1500},
}
RULE = (
    "Each run draws one computer configuration and a history of 1-6 utterances on ONE instance: every utterance "
    "is streamed (seeded chunk schedule, empty chunks, 0-3 extra finalizes, 0-2 refused compute_full / "
    "frame_by_frame calls injected mid-utterance), or run through compute_full, or through "
    "frame_by_frame_calculation; successive utterances are drawn from different length classes and dtypes; in 12 % of "
    "the runs a second live computer of the same configuration is stepped between the calls (co-tenant). "
    "Non-trivial = at least two utterances of which a later one yields >= 1 frame, or a probe fired. Distinct = "
    "distinct history signatures (computer kind, style, and per utterance: mode, dtype, length class, "
    "collapsed chunk-length classes, refusal positions, number of extra finalizes)."
)
COMPONENTS = {
    "ShortTimeFourierTransformFrameComputer / ShortIntegrationFrameComputer (long-lived instance and fresh twins)": "real",
    "frame_by_frame_calculation": "real",
    "caller (history of calls, refused calls)": "stub (simulator)",
}
ASSUMPTIONS = [
    "dtype of EMPTY results is not compared (a fresh instance has no remembered chunk dtype)",
    "signal dtypes are float32 and float64 only; scipy/fftpack branches absent",
    "bit-identity is demanded because the instance and its twin execute the same operations on the same data",
    "sampling, not proof",
]
PROBES = [
    "finalize_after_subframe_chunk", "utt_after_too_short", "utt_after_other_dtype", "refusal_at_first",
    "refusal_in_middle", "refusal_before_finalize", "finalize_x3", "full_after_stream", "stream_after_full",
    "empty_chunk_starts_utterance", "refusal_other_dtype", "log_floor_changed_between_utterances",
    "utterance_after_poisoned_samples", "co_tenant_between_calls",
]
FAULT_KINDS = ["refused_compute_full", "refused_frame_by_frame", "extra_finalize", "empty_delivery"]


def generate(rng, tier, k):
    cfg, comp, discarded = configs.gen_config(rng)
    L, S, block = configs.hints(comp)
    blk = block if cfg["computer"] == "si" else None
    nutt = rng.choice((1, 2, 2, 3, 3, 4, 5, 6))
    utts = []
    classes = ["zero", "sub", "oneframe", "short", "long"]
    last_cls = None
    budget_frames = 500
    for u in range(nutt):
        cls = rng.choice([c for c in classes if c != last_cls])
        last_cls = cls
        if cls == "zero":
            n = 0
        elif cls == "sub":
            n = rng.randrange(1, max(2, L // 2 + 1))
        elif cls == "oneframe":
            n = rng.choice((L // 2 + 1, L, L + 1, max(1, L - 1), S, S + S // 2))
        elif cls == "short":
            n = rng.randrange(L // 2 + 1, 2 * L + 2)
        else:
            n = source.gen_lengths(rng, L, S, blk, 0)
        n = max(0, min(n, budget_frames * S // max(1, nutt) + L, 3000))
        sig = {
            "kind": rng.choice(("noise", "noise", "noise", "impulses", "ramp")),
            "seed": rng.randrange(1 << 30),
            "amp": rng.choice((1e-2, 1.0, 1.0, 30.0)),
            "dtype": rng.choice(("float64", "float64", "float32")),
        }
        mode = rng.choice(("stream", "stream", "stream", "full", "fbf"))
        utt = {"signal": sig, "mode": mode, "extra_finalize": rng.choice((0, 0, 0, 1, 2, 3))}
        if rng.random() < 0.08:
            # values: a NaN / inf / overflowing sample near the end of this utterance must not outlive its finalize
            sig["poison"] = {"pos": rng.choice((0.5, 0.9, 0.97, 0.999)), "value": rng.choice(("nan", "inf", "-inf", "huge"))}
        if u and rng.random() < 0.06:
            utt["log_floor"] = rng.choice((1e-3, 1e-8, 0.5))
            sig["kind"] = "impulses"  # mostly exact zeros: the floor is what comes out
        if mode == "stream":
            dl = source.gen_deliveries(rng, n, L, S, blk, max_deliveries=24)
            utt["deliveries"] = dl
            refs = []
            if dl and rng.random() < 0.45:
                for _ in range(rng.choice((1, 1, 2))):
                    at = rng.choice((1, len(dl), rng.randrange(1, len(dl) + 1)))
                    refs.append({"at": int(at), "kind": rng.choice(("full", "fbf")),
                                 "n": int(rng.choice((0, 1, L, 2 * L + 3))), "cs": int(rng.choice((1, S, 1024))),
                                 "dtype": rng.choice(("float64", "float32"))})
            utt["refusals"] = refs
        else:
            utt["deliveries"] = [[n, "ro"]]
            utt["refusals"] = []
            if mode == "fbf":
                cs = int(rng.choice((1, 3, S, L, L + 1, 97, 1024)))
                if n // cs > 300:
                    cs = n // 300 + 1
                utt["cs"] = cs
        utts.append(utt)
    if rng.random() < 0.2:
        # a single-precision application: every utterance of the history is float32 (otherwise dtypes are mixed, and two
        # consecutive float32 utterances are rare)
        for u_ in utts:
            u_["signal"]["dtype"] = "float32"
    return {"cfg": cfg, "utterances": utts, "discarded_configs": discarded,
            # a second live computer of the same configuration, stepped between this one's calls (seed of its schedule)
            "co_tenant": rng.randrange(1, 1 << 30) if rng.random() < 0.12 else None}


def _sha(a):
    return hashlib.sha1(np.ascontiguousarray(a).tobytes()).hexdigest()


def _same(a, b):
    """bit-identical; dtype compared only when non-empty."""
    if not isinstance(a, np.ndarray) or not isinstance(b, np.ndarray):
        return False
    if a.shape != b.shape:
        return False
    if a.size == 0:
        return True
    return a.dtype == b.dtype and np.array_equal(a, b, equal_nan=True)


def _ncls(n, L, S):
    if n == 0:
        return "0"
    if n < L // 2 + 1:
        return "sub"
    if n <= L + 1:
        return "one"
    return "many"


def signature(cfg, utts, L, S):
    from sim.streamsim.c01 import _lenclass

    parts = []
    for u in utts:
        lens = [d[0] for d in u["deliveries"]]
        seq = []
        for k in lens:
            c = _lenclass(k, L, S)
            if not seq or seq[-1] != c:
                seq.append(c)
        parts.append("%s:%s:%s:%s:r%s:x%d" % (
            u["mode"][0], u["signal"]["dtype"][-2:], _ncls(sum(lens), L, S), ",".join(seq) if u["mode"] == "stream" else "-",
            "".join(str(min(r["at"], 9)) for r in u.get("refusals", [])), u.get("extra_finalize", 0)))
    return "%s/%s|%s" % (cfg["computer"], cfg.get("frame_style"), "|".join(parts))


def execute(scn, keep_trace=False):
    try:
        return _execute(scn, keep_trace)
    finally:
        _set_log_floor(1e-5)


def _execute(scn, keep_trace=False):
    res = Result()
    tr = Trace(keep_trace)
    cfg = scn["cfg"]
    _set_log_floor(1e-5)
    c = configs.build(cfg)
    if not configs.in_domain(cfg, c):
        res.digest = tr.digest()
        res.signature = "out-of-domain"
        return res
    L, S, block = configs.hints(c)
    ncoef = c.num_coeffs
    facts = dict(computer=cfg["computer"], style=c.frame_style)
    utts = scn["utterances"]
    res.signature = signature(cfg, utts, L, S)
    model_started = False
    later_frames = False
    prev = None  # (n, dtype, mode) of the previous utterance

    def fail(cls, detail, **kw):
        f = dict(facts)
        f.update(kw)
        res.violate(cls, detail, **f)

    def check_started(where):
        try:
            st = bool(c.started)
        except Exception as e:
            fail("RAISES", "started raised %r at %s" % (e, where), phase="started")
            return False
        if st != model_started:
            fail("STARTED", "started=%s but model says %s %s" % (st, model_started, where), phase=where.split()[0])
            return False
        return True

    tenant = None
    if scn.get("co_tenant"):
        tenant = source.CoTenant(configs.build(cfg), scn["co_tenant"], L, "float64")
    ok = check_started("after construction")
    for ui, u in enumerate(utts):
        if not ok:
            break
        lens = [int(d[0]) for d in u["deliveries"]]
        n = sum(lens)
        rec = dict(u["signal"])
        rec["n"] = n
        x = source.make_signal(rec)
        xsha = _sha(x)
        xro = x.view()
        xro.flags.writeable = False
        if u.get("log_floor") is not None:
            # the application adjusts the documented package constant between two utterances
            res.probe("log_floor_changed_between_utterances")
            _set_log_floor(float(u["log_floor"]))
        twin = configs.build(cfg)
        mode = u["mode"]
        tr.log("utt", ui, mode, n, rec["dtype"])
        if prev is not None:
            if len(prev) > 3 and prev[3]:
                res.probe("utterance_after_poisoned_samples")
            if prev[0] < L // 2 + 1 and n >= L // 2 + 1:
                res.probe("utt_after_too_short")
            if prev[1] != rec["dtype"]:
                res.probe("utt_after_other_dtype")
            if prev[2] == "stream" and mode == "full":
                res.probe("full_after_stream")
            if prev[2] == "full" and mode == "stream":
                res.probe("stream_after_full")
        got_frames = 0
        if mode == "stream":
            refs = u.get("refusals", [])
            a = 0
            for i, (ln, mem) in enumerate(u["deliveries"]):
                # refused calls scheduled before delivery i (only meaningful once started)
                for r in refs:
                    if r["at"] == i and model_started:
                        ok = _refuse(c, r, rec, res, tr, fail, i, len(lens)) and check_started("after refusal")
                        if not ok:
                            break
                if not ok:
                    break
                if tenant is not None and tenant.step():
                    res.probe("co_tenant_between_calls")
                ch = source.deliver(x, a, ln, mem)
                if ln == 0:
                    res.fault("empty_delivery")
                    if i == 0:
                        res.probe("empty_chunk_starts_utterance")
                try:
                    out = c.compute_chunk(ch)
                    source.recycle(ch, mem)
                except Exception as e:
                    if _twin_raises_too(e, lambda: twin.compute_chunk(source.deliver(x, a, ln, _twin_mem(mem)))):
                        res.probe("both_raise")  # not history dependent: outside this property
                    else:
                        fail("RAISES", "utt %d compute_chunk #%d raised %s: %s (a fresh instance does not)" % (
                            ui, i, type(e).__name__, e), phase="compute_chunk")
                    ok = False
                    break
                model_started = True
                exp = twin.compute_chunk(source.deliver(x, a, ln, _twin_mem(mem)))
                a += ln
                tr.log("chunk", i, ln, out)
                if not _same(out, exp):
                    fail("HISTORY", "utt %d chunk #%d (len %d): reused instance %s differs from fresh instance %s" % (
                        ui, i, ln, _desc(out), _desc(exp)), phase="compute_chunk", utt=ui)
                    ok = False
                    break
                got_frames += out.shape[0]
                if not check_started("after compute_chunk"):
                    ok = False
                    break
            if not ok:
                break
            for r in refs:
                if r["at"] >= len(lens) and model_started:
                    ok = _refuse(c, r, rec, res, tr, fail, len(lens), len(lens)) and check_started("after refusal")
                    if not ok:
                        break
            if not ok:
                break
            if lens and 0 < n < L // 2 + 1:
                res.probe("finalize_after_subframe_chunk")
            if tenant is not None:
                tenant.step()
            try:
                fin = c.finalize()
            except Exception as e:
                if _twin_raises_too(e, twin.finalize):
                    res.probe("both_raise")
                else:
                    fail("RAISES", "utt %d finalize raised %s: %s (a fresh instance does not)" % (
                        ui, type(e).__name__, e), phase="finalize")
                break
            model_started = False
            exp = twin.finalize()
            tr.log("finalize", fin)
            if not _same(fin, exp):
                fail("HISTORY", "utt %d finalize: reused instance %s differs from fresh instance %s" % (
                    ui, _desc(fin), _desc(exp)), phase="finalize", utt=ui)
                break
            got_frames += fin.shape[0]
            if not check_started("after finalize"):
                break
        else:
            if mode == "full":
                f_c, f_t = (lambda: c.compute_full(xro)), (lambda: twin.compute_full(xro))
            else:
                f_c = lambda: _compute.frame_by_frame_calculation(c, xro, int(u["cs"]))  # noqa: E731
                f_t = lambda: _compute.frame_by_frame_calculation(twin, xro, int(u["cs"]))  # noqa: E731
            try:
                out = f_c()
            except Exception as e:
                if _twin_raises_too(e, f_t):
                    res.probe("both_raise")
                else:
                    fail("RAISES", "utt %d %s raised %s: %s (a fresh instance does not)" % (
                        ui, mode, type(e).__name__, e), phase=mode)
                break
            exp = f_t()
            tr.log(mode, out)
            if not _same(out, exp):
                fail("HISTORY", "utt %d %s: reused instance %s differs from fresh instance %s" % (
                    ui, mode, _desc(out), _desc(exp)), phase=mode, utt=ui)
                break
            got_frames += out.shape[0]
            if not check_started("after " + mode):
                break
        if _sha(x) != xsha:
            fail("INPUT_MODIFIED", "utt %d: input array was modified" % ui, phase=mode)
            break
        nx = int(u.get("extra_finalize", 0))
        for j in range(nx):
            res.fault("extra_finalize")
            try:
                fin = c.finalize()
            except Exception as e:
                fail("RAISES", "extra finalize raised %s: %s" % (type(e).__name__, e), phase="extra_finalize")
                ok = False
                break
            tr.log("xfinalize", fin)
            if not isinstance(fin, np.ndarray) or fin.shape != (0, ncoef):
                fail("EXTRA_FINALIZE", "repeated finalize returned %s, expected (0, %d)" % (_desc(fin), ncoef),
                     phase="extra_finalize")
                ok = False
                break
            if not check_started("after extra finalize"):
                ok = False
                break
        if nx + (1 if mode == "stream" else 0) >= 3:
            res.probe("finalize_x3")
        if not ok:
            break
        if ui >= 1 and got_frames:
            later_frames = True
        prev = (n, rec["dtype"], mode, bool(rec.get("poison")))
    res.digest = tr.digest()
    res.events = tr.n
    res.nontrivial = bool(later_frames or res.probes)
    res.trace = tr
    return res


def _twin_mem(mem):
    """The twin gets its own array with the same memory layout (summation order may depend on strides)."""
    return mem + "_w" if mem in ("strided", "swapped") else "copy"


def _set_log_floor(value):
    from pydrobert.speech import config as _config

    _config.LOG_FLOOR_VALUE = value


def _twin_raises_too(e, fn):
    """True iff a fresh instance fails the same way (then the failure is not a matter of history)."""
    try:
        fn()
    except Exception as e2:
        return type(e2) is type(e)
    return False


def _desc(a):
    if isinstance(a, np.ndarray):
        return "%s %s sha=%s" % (a.shape, a.dtype, _sha(a)[:8])
    return repr(type(a))


def _refuse(c, r, rec, res, tr, fail, i, nd):
    """Issue a call the computer must refuse (ValueError) without disturbing the utterance."""
    rr = dict(rec)
    rr["n"] = int(r["n"])
    rr["seed"] = rec["seed"] ^ 0x5A5A
    rr["dtype"] = r.get("dtype", rec.get("dtype", "float64"))  # the refused signal may be of another dtype
    if rr["dtype"] != rec.get("dtype", "float64"):
        res.probe("refusal_other_dtype")
    y = source.make_signal(rr)
    y.flags.writeable = False
    kind = r["kind"]
    res.fault("refused_compute_full" if kind == "full" else "refused_frame_by_frame")
    if i <= 1:
        res.probe("refusal_at_first")
    elif i >= nd:
        res.probe("refusal_before_finalize")
    else:
        res.probe("refusal_in_middle")
    try:
        if kind == "full":
            c.compute_full(y)
        else:
            _compute.frame_by_frame_calculation(c, y, int(r.get("cs", 1024)))
    except ValueError:
        tr.log("refused", kind, i)
        return True
    except Exception as e:
        fail("REFUSAL", "%s mid-utterance raised %s instead of ValueError" % (kind, type(e).__name__), phase="refusal")
        return False
    fail("REFUSAL", "%s mid-utterance did not raise (before delivery %d)" % (kind, i), phase="refusal")
    return False


def minimise(scn, test, budget):
    scn = copy.deepcopy(scn)
    scn.pop("discarded_configs", None)
    if not test(scn):
        return scn

    def with_utts(us):
        c = copy.deepcopy(scn)
        c["utterances"] = us
        return c

    us = shrink.ddmin_list(scn["utterances"], lambda l: bool(l) and test(with_utts(l)), budget)
    scn = with_utts(us)
    for _ in range(2):
        for repl in configs.simplify_candidates(scn["cfg"]):
            cand = copy.deepcopy(scn)
            cand["cfg"].update(repl)
            if budget.take() and test(cand):
                scn = cand
    for ui in range(len(scn["utterances"])):
        u = scn["utterances"][ui]
        for key, val in (("extra_finalize", 0), ("refusals", [])):
            if u.get(key):
                cand = copy.deepcopy(scn)
                cand["utterances"][ui][key] = val
                if budget.take() and test(cand):
                    scn = cand
        for key, vals in ((("signal", "dtype"), ["float64"]), (("signal", "amp"), [1.0]), (("signal", "kind"), ["ramp"])):
            scn = shrink.try_replace(scn, ["utterances", ui] + list(key), vals, test, budget)

        def with_dl(dl, ui=ui):
            c = copy.deepcopy(scn)
            c["utterances"][ui]["deliveries"] = dl
            if c["utterances"][ui]["mode"] == "stream":
                for r in c["utterances"][ui].get("refusals", []):
                    r["at"] = min(r["at"], max(1, len(dl)))
            return c

        if scn["utterances"][ui]["mode"] == "stream":
            dl = shrink.ddmin_list(scn["utterances"][ui]["deliveries"], lambda d: test(with_dl(d)), budget)
            scn = with_dl(dl)
            i = 0
            while i + 1 < len(scn["utterances"][ui]["deliveries"]) and budget.left > 0:
                d = scn["utterances"][ui]["deliveries"]
                cand = with_dl(d[:i] + [[d[i][0] + d[i + 1][0], d[i][1]]] + d[i + 2 :])
                if budget.take() and test(cand):
                    scn = cand
                else:
                    i += 1
        for i in range(len(scn["utterances"][ui]["deliveries"])):
            cur = scn["utterances"][ui]["deliveries"][i][0]
            if cur <= 1:
                continue

            def t(v, ui=ui, i=i):
                c = copy.deepcopy(scn)
                c["utterances"][ui]["deliveries"][i][0] = v
                return test(c)

            scn["utterances"][ui]["deliveries"][i][0] = shrink.shrink_int(cur, 0, t, budget)
    return scn
