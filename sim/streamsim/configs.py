"""Configuration swarm for the frame computers (shared by C01 and C04).

A configuration is a JSON-able dict; `build(cfg)` constructs the real computer through the
public constructors only (no alias factory). `in_domain(comp)` implements the domain of the
property statement from public attributes."""
import numpy as np

from sim.core import env

env.setup_imports()

from pydrobert.speech import compute, filters, scales  # noqa: E402

RATES = (4000, 8000, 11025, 16000)
BANKS = ("tri", "fbank", "gabor", "gammatone")
SCALES = ("mel", "bark", "linear", "octave")
WINDOWS = ("default", "hann", "hamming", "bartlett", "blackman", "gamma")


def ms_for(samples, rate):
    """A millisecond value that int(0.001 * ms * rate) maps to exactly `samples`."""
    ms = (samples + 0.5) * 1000.0 / rate
    assert int(0.001 * ms * rate) == samples, (samples, rate)
    return ms


def make_scale(cfg):
    n = cfg["name"]
    if n == "mel":
        return scales.MelScaling()
    if n == "bark":
        return scales.BarkScaling()
    if n == "linear":
        return scales.LinearScaling(cfg.get("low_hz", 20.0), cfg.get("slope_hz", 1.0))
    if n == "octave":
        return scales.OctaveScaling(cfg.get("low_hz", 20.0))
    raise ValueError(n)


def make_bank(b):
    kind = b["kind"]
    common = dict(num_filts=b["num_filts"], low_hz=b["low_hz"], high_hz=b["high_hz"], sampling_rate=b["rate"])
    if kind == "fbank":
        return filters.Fbank(analytic=b.get("analytic", False), **common)
    sf = make_scale(b["scale"])
    if kind == "tri":
        return filters.TriangularOverlappingFilterBank(sf, analytic=b.get("analytic", False), **common)
    if kind == "gabor":
        return filters.GaborFilterBank(sf, erb=b.get("erb", False), **common)
    if kind == "gammatone":
        return filters.ComplexGammatoneFilterBank(
            sf, order=b.get("order", 4), max_centered=b.get("max_centered", False), erb=b.get("erb", False), **common
        )
    raise ValueError(kind)


def make_window(w):
    if w is None or w["name"] == "default":
        return None
    n = w["name"]
    if n == "hann":
        return filters.HannWindow()
    if n == "hamming":
        return filters.HammingWindow()
    if n == "bartlett":
        return filters.BartlettWindow()
    if n == "blackman":
        return filters.BlackmanWindow()
    if n == "gamma":
        return filters.GammaWindow(order=w.get("order", 4), peak=w.get("peak", 0.75))
    raise ValueError(n)


def build(cfg):
    bank = make_bank(cfg["bank"])
    rate = cfg["bank"]["rate"]
    win = make_window(cfg.get("window"))
    if cfg["computer"] == "stft":
        fl = cfg.get("frame_length")
        return compute.ShortTimeFourierTransformFrameComputer(
            bank,
            frame_length_ms=None if fl is None else ms_for(fl, rate),
            frame_shift_ms=ms_for(cfg["frame_shift"], rate),
            frame_style=cfg.get("frame_style"),
            include_energy=cfg.get("include_energy", False),
            pad_to_nearest_power_of_two=cfg.get("pad2", True),
            window_function=win,
            use_log=cfg.get("use_log", True),
            use_power=cfg.get("use_power", False),
            kaldi_shift=cfg.get("kaldi_shift", False),
        )
    return compute.ShortIntegrationFrameComputer(
        bank,
        frame_shift_ms=ms_for(cfg["frame_shift"], rate),
        frame_style=cfg.get("frame_style"),
        include_energy=cfg.get("include_energy", False),
        pad_to_nearest_power_of_two=cfg.get("pad2", True),
        window_function=win,
        use_power=cfg.get("use_power", False),
        use_log=cfg.get("use_log", True),
    )


def one_sided_support(comp):
    """Longest filter's one-sided support, from the public `bank.supports` (statement's wording)."""
    sup = comp.bank.supports
    if comp.frame_style == "causal":
        return max(r for _, r in sup)
    return max((r - l) // 2 for l, r in sup)


def in_domain(cfg, comp):
    S = comp.frame_shift
    if S < 1:
        return False
    if cfg["computer"] == "stft":
        return 1 <= S <= comp.frame_length
    return S < one_sided_support(comp)


def hints(comp):
    """Sizes used only to bias generation toward boundaries (private attrs are hints, never oracle)."""
    L, S = int(comp.frame_length), int(comp.frame_shift)
    block = None
    try:
        block = int(comp._dft_size - comp._max_support + 1)
    except Exception:
        pass
    return L, S, block


def gen_bank(rng):
    rate = rng.choice(RATES)
    kind = rng.choice(BANKS)
    nyq = rate // 2
    nf = rng.choice((1, 1, 2, 2, 3, 4))
    if rng.random() < 0.03:
        nf = rng.choice((8, 13, 23, 40))  # realistic bank sizes, rarely (cost grows with the number of filters)
    low = rng.choice((0.0, 20.0, 100.0, float(rng.randrange(0, nyq // 4))))
    span_min = nyq // 8
    high = float(rng.randrange(int(low) + span_min, nyq + 1))
    if rng.random() < 0.3:
        high = float(nyq)
    b = {"kind": kind, "rate": rate, "num_filts": nf, "low_hz": low, "high_hz": high}
    if kind != "fbank":
        sn = rng.choice(SCALES)
        sc = {"name": sn}
        if sn == "linear":
            sc["low_hz"] = float(rng.choice((0.0, 20.0, 300.0)))
            sc["slope_hz"] = rng.choice((1.0, 1.0, 50.0))
        elif sn == "octave":
            sc["low_hz"] = float(rng.choice((20.0, 55.0, 110.0)))
            b["low_hz"] = max(b["low_hz"], sc["low_hz"])  # octave scale is undefined below its low_hz
            if b["high_hz"] <= b["low_hz"] + span_min:
                b["high_hz"] = float(nyq)
        b["scale"] = sc
    if kind in ("tri", "fbank"):
        b["analytic"] = rng.random() < 0.3
    if kind == "gabor":
        b["erb"] = rng.random() < 0.3
    if kind == "gammatone":
        b["order"] = rng.choice((2, 3, 4, 4, 5))
        b["max_centered"] = rng.random() < 0.4
        b["erb"] = rng.random() < 0.2
    return b


def gen_window(rng):
    n = rng.choice(WINDOWS)
    w = {"name": n}
    if n == "gamma":
        w["order"] = rng.choice((2, 4, 6))
        w["peak"] = rng.choice((0.5, 0.75, 0.9))
    return w


def gen_config(rng, computer=None, max_tries=50):
    """Draw a configuration inside the property's domain. Returns (cfg, comp, discarded)."""
    discarded = 0
    for _ in range(max_tries):
        kind = computer or rng.choice(("stft", "stft", "si"))
        cfg = {"computer": kind, "bank": gen_bank(rng), "window": gen_window(rng)}
        cfg["frame_style"] = rng.choice((None, "causal", "centered"))
        cfg["include_energy"] = rng.random() < 0.35
        cfg["pad2"] = rng.random() < 0.6
        cfg["use_log"] = rng.random() < 0.6
        cfg["use_power"] = rng.random() < 0.4
        try:
            if kind == "stft":
                cfg["kaldi_shift"] = rng.random() < 0.4
                r = rng.random()
                if r < 0.15:
                    cfg["frame_length"] = None
                    bank = make_bank(cfg["bank"])
                    Ld = max(
                        max(rr - ll for ll, rr in bank.supports),
                        int(np.ceil(2 * bank.sampling_rate / min(rr - ll for ll, rr in bank.supports_hz))),
                    )
                    if Ld > 700 or Ld < 8:
                        discarded += 1
                        continue
                    L = Ld
                else:
                    L = rng.choice((8, 9, 16, 17, 31, 32, 50, 63, 64, 100, 101, 160, 200, 201, 255, 256, 400))
                    if rng.random() < 0.4:
                        L = rng.randrange(8, 420)
                    cfg["frame_length"] = L
                r = rng.random()
                if r < 0.15:
                    S = L
                elif r < 0.3:
                    S = max(1, L // 2 + rng.choice((-1, 0, 1)))
                elif r < 0.4:
                    S = rng.randrange(max(1, L // 2), L + 1)
                elif r < 0.5:
                    S = rng.choice((1, 2, 3))
                else:
                    S = rng.randrange(1, L + 1)
                cfg["frame_shift"] = min(S, L)
            else:
                bank = make_bank(cfg["bank"])
                style = cfg["frame_style"] or ("centered" if bank.is_zero_phase else "causal")
                sup = bank.supports
                if style == "causal":
                    oss = max(r for _, r in sup)
                else:
                    oss = max((r - l) // 2 for l, r in sup)
                if oss < 2 or oss > 400:
                    discarded += 1
                    continue
                r = rng.random()
                if r < 0.25:
                    S = oss - 1
                elif r < 0.4:
                    S = rng.choice((1, 2, 3))
                else:
                    S = rng.randrange(1, oss)
                cfg["frame_shift"] = max(1, min(S, oss - 1))
            comp = build(cfg)
        except ValueError:
            discarded += 1
            continue
        if not in_domain(cfg, comp):
            discarded += 1
            continue
        L, S, block = hints(comp)
        if cfg["computer"] == "si":
            try:
                if comp._dft_size > 2048:
                    discarded += 1
                    continue
            except Exception:
                pass
        return cfg, comp, discarded
    raise RuntimeError("could not draw an in-domain configuration")


def simplify_candidates(cfg):
    """Structural lattice used by the minimiser (each is a dict of replacements)."""
    out = []
    if cfg.get("include_energy"):
        out.append({"include_energy": False})
    if cfg.get("use_log", True) is False:
        out.append({"use_log": True})
    if cfg.get("use_power"):
        out.append({"use_power": False})
    if cfg.get("window", {}).get("name") != "default":
        out.append({"window": {"name": "default"}})
    if cfg.get("pad2") is False:
        out.append({"pad2": True})
    if cfg["bank"]["num_filts"] > 1:
        b = dict(cfg["bank"])
        b["num_filts"] = 1
        out.append({"bank": b})
    return out
