"""The simulated audio source: owns the whole signal, delivers it as a schedule of chunks."""
import numpy as np

from sim.core.trace import np_rng


def make_signal(rec):
    n = int(rec["n"])
    g = np_rng(rec["seed"])
    kind = rec["kind"]
    if kind == "noise":
        x = g.standard_normal(n)
    elif kind == "impulses":
        x = np.zeros(n)
        if n:
            k = max(1, n // 17)
            idx = g.integers(0, n, size=k)
            x[idx] = g.standard_normal(k) * 4
    elif kind == "ramp":
        x = np.arange(n, dtype=np.float64) / max(1, n) - 0.37
    elif kind == "const":
        x = np.full(n, 0.61)
    elif kind == "click":
        # a huge click inside very quiet noise: dynamic range of ~1e9 within one frame's neighbourhood
        x = g.standard_normal(n) * 1e-3
        if n:
            idx = g.integers(0, n, size=max(1, n // 400))
            x[idx] = 3e6 * np.sign(g.standard_normal(len(idx)) + 0.1)
    elif kind == "literal":
        x = np.asarray(rec["values"], dtype=np.float64)
    else:
        raise ValueError(kind)
    x = (x * float(rec.get("amp", 1.0))).astype(rec.get("dtype", "float64"))
    po = rec.get("poison")
    if po and n:
        # sample VALUES a recording may legally carry: drop-out markers, overflowed samples
        i = min(n - 1, int(po["pos"] * n))
        x[i] = {"nan": np.nan, "inf": np.inf, "-inf": -np.inf, "huge": 1e200 if x.dtype == np.float64 else 3e38}[po["value"]]
    return x


def deliver(x, a, ln, mem):
    """The chunk object handed to compute_chunk for samples [a, a+ln)."""
    if mem == "copy":
        return x[a : a + ln].copy()
    if mem in ("strided_w", "swapped_w"):
        # same layout as 'strided' / 'swapped' but writable (what a fresh twin is fed: read-only input must make no
        # difference, writable input must not be written to)
        v = deliver(x, a, ln, mem[:-2])
        v = v.copy() if mem == "swapped_w" else v
        if mem == "strided_w":
            y = np.empty(2 * ln, dtype=x.dtype)
            y[0::2] = x[a : a + ln]
            y[1::2] = 7.5
            v = y[0::2]
        return v
    if mem == "strided":
        # a non-contiguous read-only view holding the same samples (e.g. one channel of an interleaved buffer)
        y = np.empty(2 * ln, dtype=x.dtype)
        y[0::2] = x[a : a + ln]
        y[1::2] = 7.5
        v = y[0::2]
        v.flags.writeable = False
        return v
    if mem == "swapped":
        # same samples in the non-native byte order (e.g. read straight from a big-endian file)
        v = x[a : a + ln].astype(x.dtype.newbyteorder())
        v.flags.writeable = False
        return v
    if mem == "scratch":
        # the source recycles its buffer: a writable copy that is overwritten right after the call returns
        return x[a : a + ln].copy()
    v = x[a : a + ln]
    v.flags.writeable = False
    return v


def recycle(chunk, mem):
    """What a recycling source does with its buffer once compute_chunk has returned."""
    if mem == "scratch" and chunk.size:
        chunk[...] = np.nan if chunk.dtype.kind == "f" else 0


def gen_lengths(rng, L, S, block, style_first):
    """A signal length biased toward the boundaries the property names."""
    cands = [0, 1, 2, max(0, S // 2 - 1), S // 2, S // 2 + 1, L // 2 - 1, L // 2, L // 2 + 1, L // 2 + 2,
             L - 1, L, L + 1, S, S + 1, max(0, S - 1)]
    r = rng.random()
    if r < 0.22:
        n = rng.choice(cands)
    elif r < 0.45:
        # L + j S + r, small r: the reflected-tail family
        j = rng.randrange(0, 6)
        n = L + j * S + rng.randrange(-2, max(3, S))
    elif r < 0.55 and block:
        n = block * rng.randrange(1, 4) + rng.choice((-1, 0, 1)) + rng.choice((0, 0, style_first))
    elif r < 0.7:
        n = rng.randrange(0, max(2, L // 2 + 2))
    elif r < 0.8:
        n = rng.randrange(max(0, S // 2 - 2), L // 2 + 3) if L // 2 + 3 > max(0, S // 2 - 2) else L // 2
    else:
        n = rng.randrange(0, 6 * L + 2)
    n = max(0, n)
    # bound the number of frames so one run stays in the millisecond range
    n = min(n, 260 * S + L, 4096)
    return n


def gen_deliveries(rng, n, L, S, block, max_deliveries=64):
    """A composition of n into chunk lengths, with interleaved empty deliveries."""
    lens = []
    mode = rng.random()
    rem = n
    if mode < 0.08:
        lens = [n]
    elif mode < 0.2:
        # regular chunk size (what frame_by_frame_calculation does)
        cs = rng.choice((1, 2, 3, 7, S, max(1, S - 1), S + 1, L, L + 1, max(1, L - 1), 64, 1024))
        if block and rng.random() < 0.3:
            cs = max(1, block + rng.choice((-1, 0, 1)))
        cs = max(cs, -(-n // max_deliveries) if n else 1)
        while rem > 0:
            k = min(cs, rem)
            lens.append(k)
            rem -= k
    else:
        while rem > 0 and len(lens) < max_deliveries - 1:
            r = rng.random()
            if r < 0.18:
                k = 1
            elif r < 0.32:
                k = rng.randrange(1, max(2, S))
            elif r < 0.46:
                k = S + rng.choice((-1, 0, 1))
            elif r < 0.6:
                k = L + rng.choice((-1, 0, 1))
            elif r < 0.7:
                k = L // 2 + rng.choice((-1, 0, 1, 2))
            elif r < 0.8 and block:
                k = block * rng.choice((1, 1, 2)) + rng.choice((-1, 0, 1))
            elif r < 0.9:
                k = rng.randrange(1, max(2, 2 * L))
            else:
                k = rem
            k = max(1, min(k, rem))
            lens.append(k)
            rem -= k
        if rem > 0:
            lens.append(rem)
    # interleave empties
    out = []
    pe = rng.choice((0.0, 0.0, 0.1, 0.3))
    if rng.random() < 0.15:
        out.append(0)
    for k in lens:
        out.append(k)
        while rng.random() < pe and len(out) < max_deliveries + 16:
            out.append(0)
    if rng.random() < 0.1:
        out.append(0)
    if n == 0 and rng.random() < 0.5:
        out = [0] * rng.randrange(0, 3)
    pm = rng.choice((0.0, 0.5, 1.0))
    ps = rng.choice((0.0, 0.0, 0.3))
    pr = rng.choice((0.0, 0.0, 0.0, 0.5, 1.0))
    if rng.random() < 0.04:
        return [[int(k), "swapped"] for k in out]  # a whole stream in the non-native byte order
    return [[int(k), "strided" if rng.random() < ps else ("scratch" if rng.random() < pr else
                                                           ("copy" if rng.random() < pm else "ro"))] for k in out]


class CoTenant(object):
    """Another live computer in the same process (one computer per channel / per stream is ordinary use), stepped between
    the calls made on the computer under observation according to its own seeded schedule and fed its own data. Its
    results are not judged; it only has to leave the observed computer alone."""

    def __init__(self, comp, seed, frame_length, dtype):
        import random

        self.comp = comp
        self.r = random.Random(int(seed))
        self.g = np.random.default_rng(int(seed))
        self.L = max(1, int(frame_length))
        self.dtype = dtype
        self.calls = 0

    def step(self):
        """0-2 calls on the co-tenant; returns how many were made."""
        made = 0
        for _ in range(self.r.choice((0, 1, 1, 2))):
            q = self.r.random()
            try:
                if q < 0.75:
                    ln = self.r.choice((0, 1, self.r.randrange(1, 2 * self.L + 2), self.r.randrange(1, 2 * self.L + 2)))
                    dt = self.dtype if self.r.random() < 0.8 else ("float32" if self.dtype == "float64" else "float64")
                    if self.comp.started:
                        dt = self._dt
                    self._dt = dt
                    self.comp.compute_chunk((self.g.standard_normal(ln) * 3.0).astype(dt))
                elif q < 0.9:
                    self.comp.finalize()
                elif not self.comp.started:
                    self.comp.compute_full((self.g.standard_normal(self.r.randrange(0, 3 * self.L)) * 0.5).astype(self.dtype))
            except Exception:
                pass
            made += 1
        self.calls += made
        return made
