#!/venv/bin/python
"""Large-sample determinism proof (development tool; the per-check self-test only samples 32-64 runs).

For every claimed property and several VERIF_SEED values the same batch is executed twice in fresh interpreters -
once with 16 workers and PYTHONHASHSEED=0, once with 5 workers and PYTHONHASHSEED=777 - and the complete maps
{run index: trace digest} are compared. Writes /verif/determinism/RESULTS.json."""
import json
import os
import subprocess
import sys
import tempfile
import time

VERIF = os.path.dirname(os.path.dirname(os.path.abspath(__file__)))
PY = "/venv/bin/python"
RUNS = {"C01": 6000, "C04": 5000, "C09": 300, "C10": 500, "C11": 3000, "C12": 6000, "C13": 6000, "C16": 4000, "C17": 5000}


def batch(prop, seed, workers, hashseed, out):
    e = dict(os.environ, VERIF_SEED=str(seed), VERIF_WORKERS=str(workers), VERIF_HASHSEED=str(hashseed))
    e.pop("VERIF_PINNED", None)
    e.pop("PYTHONHASHSEED", None)
    p = subprocess.run([PY, "-m", "sim.check", prop, "--tier", "quick", "--runs", str(RUNS[prop]), "--budget", "3000",
                        "--no-selftest", "--no-evidence", "--dump-digests", out], cwd=VERIF, env=e,
                       stdout=subprocess.PIPE, stderr=subprocess.STDOUT, text=True)
    return p.returncode, json.load(open(out)) if os.path.exists(out) else {}


def main():
    seeds = [int(x) for x in (sys.argv[1] if len(sys.argv) > 1 else "1,2,3").split(",")]
    props = sys.argv[2].split(",") if len(sys.argv) > 2 else sorted(RUNS)
    res = {}
    path = os.path.join(VERIF, "determinism", "RESULTS.json")
    os.makedirs(os.path.dirname(path), exist_ok=True)
    if os.path.exists(path):
        res = json.load(open(path))
    tmp = tempfile.mkdtemp(prefix="verif-det-")
    for prop in props:
        for seed in seeds:
            t0 = time.time()
            ea, a = batch(prop, seed, 16, 0, os.path.join(tmp, "a.json"))
            eb, b = batch(prop, seed, 5, 777, os.path.join(tmp, "b.json"))
            bad = sorted(int(k) for k in set(a) | set(b) if a.get(k) != b.get(k))
            row = {"runs": len(a), "exit": [ea, eb], "mismatching_runs": len(bad), "first_mismatches": bad[:10],
                   "configs": ["16 workers, PYTHONHASHSEED=0", "5 workers, PYTHONHASHSEED=777"], "wall_s": round(time.time() - t0, 1)}
            res["%s seed %d" % (prop, seed)] = row
            print(prop, seed, row)
            sys.stdout.flush()
            with open(path, "w") as f:
                json.dump(res, f, indent=1, sort_keys=True)
    import shutil

    shutil.rmtree(tmp, ignore_errors=True)
    return 1 if any(r["mismatching_runs"] or r["exit"] != [0, 0] for r in res.values()) else 0


if __name__ == "__main__":
    sys.exit(main())
