#!/venv/bin/python
"""Write /verif/MANIFEST.json from the table below (kept in one place so it stays consistent)."""
import json
import os

VERIF = os.path.dirname(os.path.dirname(os.path.abspath(__file__)))
PY = "/venv/bin/python"

CLAIMED = {
    "C01": dict(
        engine="streamsim", level="exploration", design="DESIGN.md section 4, C01",
        technique="deterministic simulation: seeded delivery schedules (chunk cuts, empty chunks) of a simulated audio "
                  "source against the real computers, compute_full as reference model, ddmin-minimised replay files",
        text="Seeded search over (configuration, signal, delivery schedule) triples: every run streams one signal through "
             "the real computer in a simulated source's chunking and compares with compute_full on a pristine twin, in "
             "the linear domain with a round-off tolerance calibrated >= 100x above observed noise and >= 1000x below a "
             "one-sample framing error. Sampling of an exponential schedule space biased to the boundaries where state "
             "is in flight; evidence, not proof.",
        note="Trusted: numpy FFT; tolerance constants; float32/float64 only; scipy/fftpack branches cannot run here."),
    "C04": dict(
        engine="streamsim", level="exploration", design="DESIGN.md section 4, C04",
        technique="deterministic simulation: seeded call histories (utterances, empty chunks, repeated finalize, refused "
                  "calls injected mid-utterance) on one long-lived instance vs freshly constructed twins, bitwise",
        text="Seeded histories of 1-6 utterances on one instance with refused compute_full/frame_by_frame calls injected "
             "mid-utterance; every return value is compared bit for bit with a freshly constructed computer driven by "
             "the current utterance only, and `started` with a three-line model after every call.",
        note="Trusted: the constructor is deterministic (twins are built from the same configuration); dtype of empty "
             "results is not compared."),
    "C09": dict(
        engine="clisim", level="exploration", design="DESIGN.md section 4, C09",
        technique="deterministic simulation of a batch job: both command-line tools run in forked children over seeded "
                  "corpora with poison records at arbitrary positions, seeded ambient RNG state / config syntax / "
                  "simulated worker interleavings; conservation + per-record value oracle against a reference pipeline "
                  "of explicitly constructed library objects",
        text="Weakest fit of the claimed properties (stated in DESIGN.md): mostly a functional equivalence. The "
             "simulator contributes the stream-of-records view - poison records (too short, rate mismatch, channel out "
             "of range) must be skipped without disturbing neighbours, every other id stored exactly once, exit code - "
             "and an environment that differs between the two runs of every scenario (ambient RNG, inline/JSON/YAML "
             "config, worker count and interleaving), which must not change a byte under --seed. Values are compared "
             "with a reference pipeline to float32 precision.",
        note="Trusted: pydrobert-kaldi tables, torch.save/load, the /verif reference pipeline (built from the library's "
             "own explicitly constructed objects, so a defect shared by NumPy computer and reference is invisible here)."),
    "C10": dict(
        engine="clisim", level="fault_enumeration", design="DESIGN.md section 4, C10 and appendix B",
        technique="deterministic simulation with crash injection: the tool runs in a forked child under a sys.settrace "
                  "line-event scheduler; hard kill (os._exit) / soft interrupt (KeyboardInterrupt) at every traced line "
                  "event of three base scenarios, torn in-flight files, multi-crash/resume sequences, simulated worker "
                  "pool interleavings; golden uninterrupted run as reference",
        text="Every Python-level interruption point (tool function, dataset __getitem__, sampled lines of "
             "torch/serialization.py) of three base scenarios is used once as a hard-kill and once as a soft-interrupt "
             "point, plus torn writes of every feature file at 8 lengths, each followed by one fault-free re-run that "
             "must reproduce the golden directory byte for byte; manifest invariants are checked on the durable state "
             "right after every crash. Seeded scenarios add multi-crash sequences, worker counts and interleavings, "
             "prefix ids, buffer sizes, stale directories.",
        note="Kill/interrupt semantics (written bytes survive), not power loss. The worker pool is a model of DataLoader "
             "(appendix B). Exhaustive only over the Python-level interruption points of the base scenarios."),
    "C11": dict(
        engine="iosim", level="exploration", design="DESIGN.md section 4, C11",
        technique="deterministic simulation with storage fault injection: seeded truncation / bit flips / zero-fill / "
                  "splice / duplicate / garbage / lying headers on container images fed to wds_read_signal in forked "
                  "children; fault-free round trips over access paths",
        text="Fault-free: every container written with its own writer and read back bit-identically through path, file "
             "object and memory stream with dtype/key/error-type variations. Fault-injecting: ~10^5 faulted decodes per "
             "quick run through wds_read_signal, each in a forked child with an alarm, judged only on 'returns, never "
             "raises, never hangs, never crashes'.",
        note="Trusted: the containers' own writers; third-party decoders run for real. Kaldi tables/pipes not exercised."),
    "C12": dict(
        engine="iosim", level="exploration", design="DESIGN.md section 4, C12",
        technique="deterministic simulation with storage fault injection: independent SPHERE writer, data section "
                  "truncated at seeded bytes (crashed writer), the three named header faults, access paths; exhaustive "
                  "G.711 code tables",
        text="Independent writer + ITU formula oracle; fault-free decodes over channel counts / read-size alignments / "
             "byte orders / header sizes, truncation of the data section at any byte (mid-sample, mid-frame, read "
             "boundaries) with the exact expected prefix, and the three header faults the statement names; both G.711 "
             "tables enumerated completely.",
        note="Trusted: the /verif SPHERE writer and G.711 formulas (cross-checked against each other and the shipped "
             "A-law vector)."),
    "C13": dict(
        engine="iosim", level="exploration", design="DESIGN.md section 4, C13 and appendix A",
        technique="deterministic simulation with stream fault injection: independent randomised shorten encoder driving "
                  "the real decoder, clean-room reference decoder as model, stream cut at seeded bytes, unknown "
                  "command/version/type spliced in",
        text="Every command of the format (DIFF0-3, QLPC, ZERO, BLOCKSIZE, BITSHIFT, QUIT), versions 1-2, three sample "
             "types, mean lengths, bit shifts and short final blocks are produced by an encoder written from the format "
             "description; the repo decoder must return the encoded samples exactly, the six sph2pipe vectors must "
             "match their WAVs, and every premature end / unknown command / version must raise IOError.",
        note="Trusted: the encoder/reference-decoder pair (validated against the six shipped vectors on every run; a "
             "disagreement between them is a harness error, never a violation)."),
    "C16": dict(
        engine="statsim", level="exploration", design="DESIGN.md section 4, C16",
        technique="deterministic simulation: seeded accumulate histories (splits, permutations, vector/tensor forms, "
                  "axes, dtypes) with rejected calls injected, against an exact rational reference model; bitwise "
                  "agreement between histories on exactly-summable data",
        text="The same rows are delivered to fresh instances in 3-4 different histories with rejected calls interleaved; "
             "on exactly-summable data all histories must give bit-identical transforms and match a fractions.Fraction "
             "model; generic Gaussian data is checked with a conditioning-aware tolerance.",
        note="Trusted: fractions.Fraction arithmetic; zero-variance replacement is outside the statement and not generated."),
    "C17": dict(
        engine="statsim", level="exploration", design="DESIGN.md section 4, C17",
        technique="deterministic simulation over durable state: seeded histories of accumulate/save/load on a real "
                  "scratch directory whose paths already hold prior content (own saves, foreign numpy archives, "
                  "compressed archives), directory reference model",
        text="Histories of saves and loads over .npy/.npz/raw targets with prior durable content of every listed kind; "
             "after every load the reloaded apply() must be bit-identical to the accumulator's at save time, every save "
             "onto an existing file must succeed, and archive entries must follow the overwrite flag (observed with "
             "plain numpy).",
        note="Trusted: numpy's own readers to observe archives; overwrite polarity as documented in Standardize.save."),
}

NOT_APPLICABLE = {
    "C02": "pure function of (configuration, signal): no schedule, fault, crash point or history to simulate (DESIGN.md section 5)",
    "C03": "pure function of (configuration, signal): nothing for a scheduler or fault injector to decide",
    "C05": "pure function of constructor arguments",
    "C06": "pure function of (bank, filter index, DFT width)",
    "C07": "pure function of (bank, filter index, buffer width)",
    "C08": "deterministic registry walk and argument dispatch; asks for exhaustive enumeration + differential build, not simulation",
    "C14": "pure functions (torch ports vs NumPy originals); reproducibility under one manual_seed call has no schedule",
    "C15": "pure functions of (tensor, parameters)",
    "C18": "pure functions of (signal, RNG state)",
    "C19": "pure real functions",
    "C20": "pure functions",
}

PENDING = {
}


def main():
    checks = []
    for pid in sorted(CLAIMED):
        c = CLAIMED[pid]
        checks.append({
            "property_id": pid,
            "quick_cmd": "%s -m sim.check %s --tier quick" % (PY, pid),
            "thorough_cmd": "%s -m sim.check %s --tier thorough" % (PY, pid),
            "evidence_file": "/verif/evidence/%s.json" % pid,
            "replay_cmd_template": "%s -m sim.check %s --replay {path}" % (PY, pid),
            "engine": c["engine"],
            "level_claimed": {"category": c["level"], "text": c["text"], "design_ref": c["design"]},
            "level_note": c["note"],
            "technique": c["technique"],
        })
    na = [{"property_id": k, "reason": v} for k, v in sorted(dict(NOT_APPLICABLE, **PENDING).items())]
    doc = {
        "version": 1,
        "setup_cmd": "%s -m sim.setup" % PY,
        "hooks": {
            "guard": "PYDROBERT_SPEECH_VERIF",
            "enable": "no source hooks exist: every seam is a call-time lookup, a trace function or a fork installed by "
                      "the simulator (the guard name is reserved; setting it changes nothing)",
            "baseline_off_cmd": "cd /repo && /venv/bin/python -m pytest -ra -q -p no:cacheprovider --timeout=900 "
                                "--continue-on-collection-errors",
            "source_commits": [],
            "add_only": True,
        },
        "engines": [
            {"name": "streamsim", "path": "sim/streamsim", "serves_properties": ["C01", "C04"],
             "kind_free_text": "simulated audio source / caller over real frame computers"},
            {"name": "statsim", "path": "sim/statsim", "serves_properties": ["C16", "C17"],
             "kind_free_text": "simulated caller histories over real Standardize + real scratch directory"},
            {"name": "iosim", "path": "sim/iosim", "serves_properties": ["C11", "C12", "C13"],
             "kind_free_text": "simulated storage with fault injection over real readers/decoders"},
            {"name": "clisim", "path": "sim/clisim", "serves_properties": ["C09", "C10"],
             "kind_free_text": "forked command-line tools under a line-event scheduler with crash/interrupt/torn-write "
                               "faults and a simulated worker pool"},
        ],
        "checks": checks,
        "not_applicable": na,
        "notes": "All checks: cwd=/verif, code under test imported from $VERIF_REPO/src (default /repo/src) on every run, "
                 "VERIF_SEED selects the batch. Exit 0 ok / 1 VIOLATION (replay file, verified in a fresh interpreter) / "
                 "2 harness error. known_findings.json lists repaired defects (status fixed: suppress nothing).",
    }
    with open(os.path.join(VERIF, "MANIFEST.json"), "w") as f:
        json.dump(doc, f, indent=1)
        f.write("\n")
    print("wrote MANIFEST.json with", len(checks), "checks,", len(na), "not applicable")


if __name__ == "__main__":
    main()
