#!/venv/bin/python
"""Regenerate /verif/mutants/*.diff from mutants/specs.py against the current /repo tree.

Each spec is (name, properties, file, old, new, note); `old` must occur exactly once."""
import difflib
import importlib.util
import os
import sys

VERIF = os.path.dirname(os.path.dirname(os.path.abspath(__file__)))
REPO = os.environ.get("VERIF_REPO", "/repo")


def main():
    spec = importlib.util.spec_from_file_location("specs", os.path.join(VERIF, "mutants", "specs.py"))
    mod = importlib.util.module_from_spec(spec)
    spec.loader.exec_module(mod)
    only = set(sys.argv[1:])
    bad = 0
    for name, props, rel, old, new, note in mod.MUTANTS:
        if only and name not in only:
            continue
        path = os.path.join(REPO, rel)
        src = open(path).read()
        if src.count(old) != 1:
            print("SKIP %s: pattern occurs %d times in %s" % (name, src.count(old), rel))
            bad += 1
            continue
        mut = src.replace(old, new)
        diff = "".join(difflib.unified_diff(src.splitlines(True), mut.splitlines(True), "a/" + rel, "b/" + rel))
        with open(os.path.join(VERIF, "mutants", name + ".diff"), "w") as f:
            f.write("# mutant %s breaks %s: %s\n" % (name, ",".join(props), note))
            f.write(diff)
        print("wrote", name)
    return 1 if bad else 0


if __name__ == "__main__":
    sys.exit(main())
