#!/venv/bin/python
"""Evaluate a behaviour-preserving refactor written by a sub-agent: the property still holds, so the check must stay
quiet.   tools/neg_eval.py <dir with patch.diff, demo.py> <property> <name> [--seeds 0,1]
Confirms the patch applies, the suite is unchanged, demo.py exits 0 with and without it, then runs the property's quick
check (VERIF_REPO=<patched copy>) for every seed: every run must exit 0. Records under /verif/refactors/<name>/."""
import argparse
import json
import os
import shutil
import subprocess
import sys
import tempfile

VERIF = os.path.dirname(os.path.dirname(os.path.abspath(__file__)))
PY = "/venv/bin/python"
sys.path.insert(0, os.path.join(VERIF, "tools"))
import seeded_eval  # noqa: E402
import sensitivity  # noqa: E402


def main():
    ap = argparse.ArgumentParser()
    ap.add_argument("src")
    ap.add_argument("prop")
    ap.add_argument("name")
    ap.add_argument("--seeds", default="0,1")
    ap.add_argument("--also", default="")
    args = ap.parse_args()
    clean = tempfile.mkdtemp(prefix="verif-neg-clean-")
    mut = tempfile.mkdtemp(prefix="verif-neg-mut-")
    meta = {"property": args.prop, "name": args.name, "kind": "behaviour-preserving refactor (the check must NOT alarm)"}
    try:
        seeded_eval.copy_repo(clean)
        seeded_eval.copy_repo(mut)
        p = subprocess.run(["patch", "-p1", "-s", "-d", mut, "-i", os.path.abspath(os.path.join(args.src, "patch.diff"))],
                           stdout=subprocess.PIPE, stderr=subprocess.STDOUT, text=True)
        meta["patch_applies"] = p.returncode == 0
        if p.returncode != 0:
            print(json.dumps(meta, indent=1))
            return 2
        demo = os.path.abspath(os.path.join(args.src, "demo.py"))
        rc0, _ = seeded_eval.run_demo(demo, clean)
        rc1, out1 = seeded_eval.run_demo(demo, mut)
        meta["demo_exit_unchanged"], meta["demo_exit_with_change"] = rc0, rc1
        passed, failed, tail = sensitivity.run_suite(mut)
        meta["suite_with_change"] = tail
        meta["suite_regressions"] = sorted(set(failed) & sensitivity.stable_pass())
        checks = {}
        for prop in [args.prop] + [x for x in args.also.split(",") if x]:
            for seed in args.seeds.split(","):
                env = dict(os.environ, VERIF_REPO=mut, VERIF_SEED=seed)
                env.pop("VERIF_PINNED", None)
                q = subprocess.run([PY, "-m", "sim.check", prop, "--tier", "quick", "--no-evidence", "--no-selftest"],
                                   cwd=VERIF, env=env, stdout=subprocess.PIPE, stderr=subprocess.STDOUT, text=True)
                lines = [l for l in q.stdout.splitlines() if l.startswith(("VIOLATION", "  class=", "SUMMARY", "HARNESS"))]
                checks["%s seed %s" % (prop, seed)] = {"exit": q.returncode, "quiet": q.returncode == 0,
                                                       "lines": [l[:600] for l in lines[:5]]}
        meta["checks"] = checks
        meta["all_quiet"] = all(c["quiet"] for c in checks.values())
        dst = os.path.join(VERIF, "refactors", args.name)
        os.makedirs(dst, exist_ok=True)
        for f in ("patch.diff", "demo.py", "notes.md"):
            if os.path.exists(os.path.join(args.src, f)):
                shutil.copy(os.path.join(args.src, f), os.path.join(dst, f))
        with open(os.path.join(dst, "meta.json"), "w") as f:
            json.dump(meta, f, indent=1)
        print(json.dumps(meta, indent=1))
    finally:
        shutil.rmtree(clean, ignore_errors=True)
        shutil.rmtree(mut, ignore_errors=True)
    return 0


if __name__ == "__main__":
    sys.exit(main())
