#!/venv/bin/python
"""Re-run the quick checks against every behaviour-preserving rewrite under /verif/refactors (patch applied to a scratch
copy of /repo, VERIF_REPO pointing at it, VERIF_SEED 0 and 1) and report any that is no longer quiet. Writes
refactors/RECHECK.json. Development tool."""
import json
import os
import shutil
import subprocess
import sys
import tempfile

VERIF = os.path.dirname(os.path.dirname(os.path.abspath(__file__)))
PY = "/venv/bin/python"


def main():
    only = set(sys.argv[1:])
    out = {}
    path = os.path.join(VERIF, "refactors", "RECHECK.json")
    if os.path.exists(path):
        out = json.load(open(path))
    for name in sorted(os.listdir(os.path.join(VERIF, "refactors"))):
        d = os.path.join(VERIF, "refactors", name)
        if not os.path.isdir(d) or (only and name not in only and name[:3] not in only):
            continue
        meta = json.load(open(os.path.join(d, "meta.json")))
        prop = meta["property"]
        scratch = tempfile.mkdtemp(prefix="verif-negcheck-")
        try:
            for sub in ("src", "tests"):
                shutil.copytree(os.path.join("/repo", sub), os.path.join(scratch, sub), ignore=shutil.ignore_patterns("__pycache__"))
            p = subprocess.run(["patch", "-p1", "-s", "-d", scratch, "-i", os.path.join(d, "patch.diff")],
                               stdout=subprocess.PIPE, stderr=subprocess.STDOUT, text=True)
            if p.returncode != 0:
                out[name] = {"patch_applies": False}
                print(name, "PATCH DOES NOT APPLY")
                continue
            row = {"patch_applies": True, "quiet": True}
            for seed in (0, 1):
                env = dict(os.environ, VERIF_REPO=scratch, VERIF_SEED=str(seed))
                env.pop("VERIF_PINNED", None)
                q = subprocess.run([PY, "-m", "sim.check", prop, "--tier", "quick", "--no-evidence", "--no-selftest"],
                                   cwd=VERIF, env=env, stdout=subprocess.PIPE, stderr=subprocess.STDOUT, text=True)
                lines = [l for l in q.stdout.splitlines() if l.startswith(("VIOLATION", "HARNESS_ERROR", "SUMMARY", "  class="))]
                row["seed %d" % seed] = {"exit": q.returncode, "lines": lines[:6]}
                if q.returncode != 0:
                    row["quiet"] = False
            out[name] = row
            print(name, "quiet" if row["quiet"] else "ALARM %s" % row)
            sys.stdout.flush()
        finally:
            shutil.rmtree(scratch, ignore_errors=True)
        with open(path, "w") as f:
            json.dump(out, f, indent=1, sort_keys=True)
    return 0 if all(r.get("quiet") for r in out.values()) else 1


if __name__ == "__main__":
    sys.exit(main())
