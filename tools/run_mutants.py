#!/venv/bin/python
"""Run every sensitivity mutant (mutants/specs.py) against the quick checks of the properties it
breaks; optionally (--suite) confirm the repository's own tests stay green with it.

  tools/run_mutants.py [--suite] [--only name,name] [--prefix c01] [--runs N]
Writes mutants/RESULTS.json. Development / self-check tool; never part of a verdict."""
import argparse
import importlib.util
import json
import os
import subprocess
import sys

VERIF = os.path.dirname(os.path.dirname(os.path.abspath(__file__)))


def main():
    ap = argparse.ArgumentParser()
    ap.add_argument("--suite", action="store_true")
    ap.add_argument("--only", default="")
    ap.add_argument("--prefix", default="")
    ap.add_argument("--runs", type=int, default=None)
    ap.add_argument("--tier", default="quick")
    args = ap.parse_args()
    spec = importlib.util.spec_from_file_location("specs", os.path.join(VERIF, "mutants", "specs.py"))
    mod = importlib.util.module_from_spec(spec)
    spec.loader.exec_module(mod)
    only = set(x for x in args.only.split(",") if x)
    respath = os.path.join(VERIF, "mutants", "RESULTS.json")
    results = {}
    if os.path.exists(respath):
        results = json.load(open(respath))
    for name, props, rel, old, new, note in mod.MUTANTS:
        if only and name not in only:
            continue
        if args.prefix and not name.startswith(args.prefix):
            continue
        cmd = [sys.executable, os.path.join(VERIF, "tools", "sensitivity.py"),
               os.path.join(VERIF, "mutants", name + ".diff"), "--props", ",".join(props), "--tier", args.tier]
        if args.suite:
            cmd.append("--suite")
        if args.runs:
            cmd += ["--runs", str(args.runs)]
        p = subprocess.run(cmd, stdout=subprocess.PIPE, stderr=subprocess.STDOUT, text=True)
        try:
            out = json.loads(p.stdout[p.stdout.index("{"):])
        except Exception:
            out = {"error": p.stdout[-2000:]}
        row = results.get(name, {})
        row["note"] = note
        if "suite" in out:
            row["suite_same_as_baseline"] = out["suite"]["same_as_baseline"]
            row["suite_tail"] = out["suite"]["tail"]
        for pr in props:
            if pr in out:
                row[pr] = "caught" if out[pr]["exit"] == 1 else "MISSED(exit %s)" % out[pr]["exit"]
                row[pr + "_lines"] = out[pr]["lines"][:3]
        if "error" in out:
            row["error"] = out["error"]
        results[name] = row
        print(name, {k: v for k, v in row.items() if not k.endswith("_lines") and k != "note"})
        sys.stdout.flush()
        with open(respath, "w") as f:
            json.dump(results, f, indent=1, sort_keys=True)
    return 0


if __name__ == "__main__":
    sys.exit(main())
