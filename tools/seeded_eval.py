#!/venv/bin/python
"""Confirm a sub-agent's seeded change and record it under /verif/seeded/<name>/.

  tools/seeded_eval.py <dir with patch.diff, demo.py[, notes.md]> <property> <name> [--runs N] [--no-suite]

Confirms, in scratch copies of /repo (outside /repo and /verif, deleted afterwards):
  1. the patch applies to the current /repo tree;
  2. the repository's own test suite is as green with it as without (no stable-pass test regresses);
  3. demo.py exits 0 on the unchanged tree and non-zero with the change;
then runs the property's quick check with VERIF_REPO=<patched copy> and writes meta.json."""
import argparse
import json
import os
import shutil
import subprocess
import sys
import tempfile

VERIF = os.path.dirname(os.path.dirname(os.path.abspath(__file__)))
PY = "/venv/bin/python"
sys.path.insert(0, os.path.join(VERIF, "tools"))
import sensitivity  # noqa: E402


def copy_repo(dst):
    for sub in ("src", "tests"):
        shutil.copytree(os.path.join("/repo", sub), os.path.join(dst, sub), ignore=shutil.ignore_patterns("__pycache__"))
    for f in ("pyproject.toml", "setup.cfg", "setup.py", "pytest.ini", "tox.ini"):
        if os.path.exists(os.path.join("/repo", f)):
            shutil.copy(os.path.join("/repo", f), os.path.join(dst, f))


def run_demo(demo, root):
    env = dict(os.environ, PYTHONPATH=os.path.join(root, "src"))
    p = subprocess.run([PY, demo], cwd=root, env=env, stdout=subprocess.PIPE, stderr=subprocess.STDOUT, text=True,
                       timeout=1200)
    return p.returncode, p.stdout[-1500:]


def main():
    ap = argparse.ArgumentParser()
    ap.add_argument("src")
    ap.add_argument("prop")
    ap.add_argument("name")
    ap.add_argument("--runs", type=int, default=None)
    ap.add_argument("--no-suite", action="store_true")
    ap.add_argument("--also", default="", help="other properties whose checks should be run too")
    args = ap.parse_args()
    clean = tempfile.mkdtemp(prefix="verif-seed-clean-")
    mut = tempfile.mkdtemp(prefix="verif-seed-mut-")
    meta = {"property": args.prop, "name": args.name}
    try:
        copy_repo(clean)
        copy_repo(mut)
        patch = os.path.join(args.src, "patch.diff")
        p = subprocess.run(["patch", "-p1", "-s", "-d", mut, "-i", os.path.abspath(patch)], stdout=subprocess.PIPE,
                           stderr=subprocess.STDOUT, text=True)
        meta["patch_applies"] = p.returncode == 0
        if p.returncode != 0:
            meta["patch_error"] = p.stdout[-800:]
            print(json.dumps(meta, indent=1))
            return 2
        demo = os.path.abspath(os.path.join(args.src, "demo.py"))
        rc0, out0 = run_demo(demo, clean)
        rc1, out1 = run_demo(demo, mut)
        meta["demo_exit_unchanged"] = rc0
        meta["demo_exit_with_change"] = rc1
        meta["demo_tail_with_change"] = out1[-600:]
        if not args.no_suite:
            passed, failed, tail = sensitivity.run_suite(mut)
            regress = sorted(set(failed) & sensitivity.stable_pass())
            meta["suite_with_change"] = tail
            meta["suite_regressions"] = regress
        checks = {}
        for prop in [args.prop] + [x for x in args.also.split(",") if x]:
            env = dict(os.environ, VERIF_REPO=mut)
            env.pop("VERIF_PINNED", None)
            cmd = [PY, "-m", "sim.check", prop, "--tier", "quick", "--no-evidence", "--no-selftest"]
            if args.runs:
                cmd += ["--runs", str(args.runs)]
            q = subprocess.run(cmd, cwd=VERIF, env=env, stdout=subprocess.PIPE, stderr=subprocess.STDOUT, text=True)
            lines = [l for l in q.stdout.splitlines() if l.startswith(("VIOLATION", "  class=", "SUMMARY", "HARNESS"))]
            checks[prop] = {"exit": q.returncode, "caught": q.returncode == 1, "lines": [l[:500] for l in lines[:6]]}
        meta["checks"] = checks
        meta["confirmed"] = bool(meta["patch_applies"] and rc0 == 0 and rc1 != 0 and
                                 (args.no_suite or not meta.get("suite_regressions")))
        meta["what_was_run"] = [
            "patch -p1 in a scratch copy of /repo (src + tests)",
            "demo.py with PYTHONPATH=<copy>/src on the unchanged and on the patched copy",
            "pytest -q -p no:cacheprovider --timeout=900 -n 8 in the patched copy, failing set compared with "
            "BASELINE.json stable_pass",
            "VERIF_REPO=<patched copy> /venv/bin/python -m sim.check <property> --tier quick --no-evidence --no-selftest",
        ]
        if meta["confirmed"]:
            dst = os.path.join(VERIF, "seeded", args.name)
            os.makedirs(dst, exist_ok=True)
            for f in ("patch.diff", "demo.py", "notes.md"):
                if os.path.exists(os.path.join(args.src, f)):
                    shutil.copy(os.path.join(args.src, f), os.path.join(dst, f))
            notes = os.path.join(args.src, "notes.md")
            if os.path.exists(notes):
                meta["needs_to_manifest"] = "see notes.md"
            with open(os.path.join(dst, "meta.json"), "w") as f:
                json.dump(meta, f, indent=1)
        print(json.dumps(meta, indent=1))
    finally:
        shutil.rmtree(clean, ignore_errors=True)
        shutil.rmtree(mut, ignore_errors=True)
    return 0


if __name__ == "__main__":
    sys.exit(main())
