#!/venv/bin/python
"""Re-run the quick checks against every change under /verif/seeded (patch applied to a scratch copy of /repo,
VERIF_REPO pointing at it) and report which are still caught. Writes seeded/RECHECK.json. Development tool."""
import json
import os
import shutil
import subprocess
import sys
import tempfile

VERIF = os.path.dirname(os.path.dirname(os.path.abspath(__file__)))
PY = "/venv/bin/python"


def main():
    only = set(sys.argv[1:])
    out = {}
    path = os.path.join(VERIF, "seeded", "RECHECK.json")
    if os.path.exists(path):
        out = json.load(open(path))
    for name in sorted(os.listdir(os.path.join(VERIF, "seeded"))):
        d = os.path.join(VERIF, "seeded", name)
        if not os.path.isdir(d) or (only and name not in only):
            continue
        meta = json.load(open(os.path.join(d, "meta.json")))
        props = [p for p, c in meta["checks"].items() if c["caught"]] or list(meta["checks"])
        scratch = tempfile.mkdtemp(prefix="verif-recheck-")
        try:
            shutil.copytree("/repo/src", os.path.join(scratch, "src"), ignore=shutil.ignore_patterns("__pycache__"))
            p = subprocess.run(["patch", "-p1", "-s", "-d", scratch, "-i", os.path.join(d, "patch.diff")],
                               stdout=subprocess.PIPE, stderr=subprocess.STDOUT, text=True)
            if p.returncode != 0:
                out[name] = {"patch_applies": False}
                print(name, "PATCH DOES NOT APPLY")
                continue
            row = {"patch_applies": True}
            for prop in props:
                env = dict(os.environ, VERIF_REPO=scratch)
                env.pop("VERIF_PINNED", None)
                q = subprocess.run([PY, "-m", "sim.check", prop, "--tier", "quick", "--no-evidence", "--no-selftest"],
                                   cwd=VERIF, env=env, stdout=subprocess.PIPE, stderr=subprocess.STDOUT, text=True)
                row[prop] = {"exit": q.returncode, "caught": q.returncode == 1}
            out[name] = row
            print(name, {k: v for k, v in row.items() if k != "patch_applies"})
            sys.stdout.flush()
        finally:
            shutil.rmtree(scratch, ignore_errors=True)
        with open(path, "w") as f:
            json.dump(out, f, indent=1, sort_keys=True)
    return 0


if __name__ == "__main__":
    sys.exit(main())
