#!/venv/bin/python
"""Run quick (or thorough) checks under several VERIF_SEED values on the current tree and report every
non-zero exit. Development tool for false-alarm hunting; writes no evidence."""
import argparse
import os
import subprocess
import sys
import time

VERIF = os.path.dirname(os.path.dirname(os.path.abspath(__file__)))


def main():
    ap = argparse.ArgumentParser()
    ap.add_argument("--props", default="C01,C04,C09,C10,C11,C12,C13,C16,C17")
    ap.add_argument("--seeds", default="1-5")
    ap.add_argument("--tier", default="quick")
    ap.add_argument("--runs", type=int, default=None)
    ap.add_argument("--budget", type=float, default=None)
    ap.add_argument("--selftest", action="store_true", help="keep the determinism self-test on")
    args = ap.parse_args()
    a, _, b = args.seeds.partition("-")
    seeds = range(int(a), int(b or a) + 1)
    bad = 0
    for seed in seeds:
        for prop in args.props.split(","):
            env = dict(os.environ, VERIF_SEED=str(seed))
            env.pop("VERIF_PINNED", None)
            cmd = [sys.executable, "-m", "sim.check", prop, "--tier", args.tier, "--no-evidence"]
            if not args.selftest:
                cmd.append("--no-selftest")
            if args.runs:
                cmd += ["--runs", str(args.runs)]
            if args.budget:
                cmd += ["--budget", str(args.budget)]
            t = time.time()
            p = subprocess.run(cmd, cwd=VERIF, env=env, stdout=subprocess.PIPE, stderr=subprocess.STDOUT, text=True)
            lines = [l for l in p.stdout.splitlines() if l.startswith(("VIOLATION", "  class", "HARNESS", "WARN", "SUMMARY"))]
            print("seed=%d %s exit=%d %.0fs %s" % (seed, prop, p.returncode, time.time() - t, " || ".join(lines)[:900]))
            sys.stdout.flush()
            if p.returncode:
                bad += 1
    print("DONE nonzero=%d" % bad)
    return 1 if bad else 0


if __name__ == "__main__":
    sys.exit(main())
