#!/venv/bin/python
"""Sensitivity tool (development / thorough self-check, never part of a verdict).

  tools/sensitivity.py <diff> [--props C01,C04] [--suite] [--runs N] [--tier quick]

Copies /repo (src + tests) to a scratch directory outside /repo and /verif, applies <diff>
there, optionally runs the repository's own test suite against the mutated copy (--suite;
reports whether exactly the baseline's always-failing tests fail), runs the named checks with
VERIF_REPO=<scratch> and reports their exit codes, then deletes the scratch directory.
"""
import argparse
import json
import os
import re
import shutil
import subprocess
import sys
import tempfile

VERIF = os.path.dirname(os.path.dirname(os.path.abspath(__file__)))
PY = "/venv/bin/python"


def stable_pass():
    """The baseline's stable-pass tests, as pytest node ids."""
    names = json.load(open("/root/.vp/BASELINE.json"))["stable_pass"]
    out = set()
    for n in names:
        mod, _, rest = n.partition("::")
        out.add(mod.replace(".", "/") + ".py::" + rest)
    return out


def run_suite(scratch):
    env = dict(os.environ)
    env["PYTHONPATH"] = os.path.join(scratch, "src")
    p = subprocess.run(
        [PY, "-m", "pytest", "-q", "-p", "no:cacheprovider", "--timeout=900", "-x", "--co", "-q"],
        cwd=scratch, env=env, stdout=subprocess.PIPE, stderr=subprocess.STDOUT, text=True)
    p = subprocess.run(
        [PY, "-m", "pytest", "-q", "-p", "no:cacheprovider", "--timeout=900", "-n", "8"],
        cwd=scratch, env=env, stdout=subprocess.PIPE, stderr=subprocess.STDOUT, text=True)
    tail = p.stdout.strip().splitlines()[-1] if p.stdout.strip() else ""
    failed = sorted(set(re.findall(r"^FAILED (\S+)", p.stdout, flags=re.M)))
    m = re.search(r"(\d+) passed", tail)
    passed = int(m.group(1)) if m else -1
    return passed, failed, tail


def main():
    ap = argparse.ArgumentParser()
    ap.add_argument("diff")
    ap.add_argument("--props", default="")
    ap.add_argument("--suite", action="store_true")
    ap.add_argument("--runs", type=int, default=None)
    ap.add_argument("--tier", default="quick")
    ap.add_argument("--keep", action="store_true")
    ap.add_argument("--repo", default="/repo")
    args = ap.parse_args()
    scratch = tempfile.mkdtemp(prefix="verif-mut-")
    rc = 0
    try:
        for sub in ("src", "tests", "pyproject.toml", "setup.cfg", "setup.py", "pytest.ini", "tox.ini"):
            s = os.path.join(args.repo, sub)
            if os.path.isdir(s):
                shutil.copytree(s, os.path.join(scratch, sub), ignore=shutil.ignore_patterns("__pycache__"))
            elif os.path.exists(s):
                shutil.copy(s, os.path.join(scratch, sub))
        p = subprocess.run(["patch", "-p1", "-s", "-d", scratch, "-i", os.path.abspath(args.diff)],
                           stdout=subprocess.PIPE, stderr=subprocess.STDOUT, text=True)
        if p.returncode != 0:
            print("PATCH FAILED\n" + p.stdout)
            return 3
        out = {"diff": args.diff}
        if args.suite:
            passed, failed, tail = run_suite(scratch)
            regress = sorted(set(failed) & stable_pass())
            out["suite"] = {"passed": passed, "failed": len(failed), "tail": tail,
                            "same_as_baseline": passed >= 752 and not regress}
            if regress:
                out["suite"]["regressions"] = regress[:40]
        for prop in [x for x in args.props.split(",") if x]:
            env = dict(os.environ)
            env["VERIF_REPO"] = scratch
            env.pop("VERIF_PINNED", None)
            cmd = [PY, "-m", "sim.check", prop, "--tier", args.tier, "--no-evidence", "--no-selftest"]
            if args.runs:
                cmd += ["--runs", str(args.runs)]
            p = subprocess.run(cmd, cwd=VERIF, env=env, stdout=subprocess.PIPE, stderr=subprocess.STDOUT, text=True)
            lines = [l for l in p.stdout.splitlines() if l.startswith(("VIOLATION", "  class=", "SUMMARY", "HARNESS", "KNOWN"))]
            out[prop] = {"exit": p.returncode, "lines": lines[:12]}
            if p.returncode != 1:
                rc = 1
        print(json.dumps(out, indent=1))
    finally:
        if not args.keep:
            shutil.rmtree(scratch, ignore_errors=True)
        else:
            print("kept", scratch)
    return rc


if __name__ == "__main__":
    sys.exit(main())
